"""C03 — Classical control and data flow behave as in Python.

Three things per case (program, argument values):

  real    the CFG the real `CFGBuilder` of /repo builds for the generated source (cfg/builder.py driven directly on
          the annotated function body), (a) canonicalised to the S-expression form of the line protocol and (b)
          *interpreted* by a small evaluator that `exec`s the real block statements and follows `branch_pred` /
          `successors`;
  model   Lean driver C03: `build` (Model/Builder.lean) diffed against (a); `run` = the model's Python big-step
          semantics (diffed against CPython) and the model's CFG semantics on the CFG it builds (diffed against (b));
  oracle  CPython running the same source text with instrumented external functions: (return value, call trace).

`real (b) != oracle` is a failing input of the property (ctx.violation); classified by the hoist-safety verdict of
the Lean model (known defect D9 outside the hoist-safe fragment).  `real != model` -> ctx.broke.

Functions useful from a scratch script (after `import bootstrap; bootstrap.install()`):
  gen_program(rng, profile)            -> (source, rn)
  eval_real(source, rn, inputs)        -> dict: everything that does not need the Lean driver
  real_build(source, rn)               -> (status, cfg|None);  canon_cfg(cfg) -> protocol string
  CfgProg(cfg).run(args, budget)       -> Outcome;   PyProg(source).run(args, ticks) -> Outcome
  surface_request(source)              -> S-expression statement list of the protocol
  hs_source(source)                    -> 'safe' | 'chain' | 'sibling'   (Python copy of the Lean predicate)
  run_real_only(n, seed, profile)      -> summary dict (no Lean at all)
"""
from __future__ import annotations

import ast
import json
import os
import re
import sys
import time

sys.path.insert(0, os.path.dirname(os.path.dirname(os.path.abspath(__file__))))
import vlib

PID = "C03"
THEOREM_MODULES = ["GuppyVerif.Props.C03"]
DRIVER = "C03"
RULE = (
    "case = (generated program `def main(x, y, z)`, returns_none flag, argument store). Programs: type-directed random "
    "structured programs over int parameters x,y,z and int/bool locals: nested if/elif/else, while (counter loops, "
    "`while True` + break, external-call conditions, constant conditions), for over range, break/continue, early and "
    "bare returns, statements after return/break/continue (unreachable code), constant conditions, expression "
    "statements, augmented assignments; expressions with external calls (0-2 args), conditional expressions, and/or "
    "(2-3 operands), not, chained comparisons, walrus, negative literals. ~80% of the programs are hoist-safe, the rest "
    "are deliberately D9-shaped (lifted sub-expression right of a side-effecting sibling, call in the middle of a chained "
    "comparison). Each program is run on 3 argument stores (zero, negative and small positive values). Per case: real "
    "CFGBuilder output interpreted by exec'ing the real block statements vs CPython running the source (value + call "
    "trace); real CFG structure vs Lean `build`; Lean `run` (py / cfg) vs CPython / real-CFG interpretation; structural "
    "facts on the real CFG. non-trivial = the program has a branch, loop or lifted expression and at least one external "
    "call; distinct by (source, rn, arguments)"
)
ASSUMPTIONS = [
    "the real CFG is given meaning by exec'ing the real block statements (ast nodes as left by the builder) in CPython and "
    "following branch_pred / successors[1 if pred else 0]; MakeIter/IterNext of the for-template are interpreted as "
    "iter()/next() with an Option-like result; lowering of blocks to HUGR and HUGR execution are not covered here",
    "external functions f,g,h,k (int) and c,p,q (bool) are deterministic functions of (name, arguments, number of calls so far); "
    "they record every call, so both value flow and call order are observable",
    "integers are unbounded on all sides (the 64-bit reduction of the statement is a property of the arithmetic lowering, C13/C16)",
    "the Lean models Model/Surface.lean and Model/Builder.lean are hand-written; agreement with CPython and cfg/builder.py is "
    "established by the same-input correspondence run here",
    "termination-insensitive: inputs on which CPython exceeds the loop budget are skipped",
]
UNMODELLED = [
    "type checking (programs are fed to CFGBuilder directly; the generator is type-directed so that programs are plausible)",
    "tuples, structs, arrays, floats, nested functions, comprehensions, with-blocks, comptime expressions",
    "chained comparisons with more than 3 operands; a lifted construct or a double negation as the middle operand of a chained "
    "comparison (model answers `err unsupported`, oracle still runs)",
    "compile_bb / block wiring and HUGR execution",
]
MANIFEST = {
    "level_text": "Lean theorems over a hand-written model of cfg/builder.py (statement and expression builders, branch builder, "
    "for-template, reachability and pruning): for every program of the hoist-safe fragment and every argument store the CFG "
    "semantics of the built CFG yields the same return value and call trace as the Python big-step semantics of the source; "
    "structural invariants of the built CFG. The model is tied to /repo on every run: the real CFGBuilder is driven on generated "
    "programs, its output is diffed block by block against the model's, the real CFG is interpreted and compared with CPython "
    "running the same source, and the model's two semantics are compared with CPython and with the real-CFG interpretation.",
    "level_note": "Trusted: Lean kernel + propext/Classical.choice/Quot.sound; the reading of a CFG (exec of block statements, "
    "successors[1] on a true predicate); correspondence is sampling. Outside the hoist-safe fragment the property is false of "
    "the code (D9, known findings).",
    "technique": "Lean 4 proof over a hand-written builder model + differential correspondence (structure and semantics) with "
    "cfg/builder.py and CPython",
    "design_ref": "DESIGN.md §5 C03",
    "ready": False,
}

KEY_CHAIN = "class:chained-compare-middle-twice"
KEY_SIBLING = "class:lifted-subexpr-hoisted-before-left-sibling"
PARAMS = ("x", "y", "z")
FNAME = "main"  # `f` is an external function
INT_EXT = "fghk"
BOOL_EXT = "cpq"
PY_TICKS = 120
MODEL_FUEL = 3000  # cap; per run: 200 + the step budget given to the real-CFG interpreter


# ============================================================================ profile (C05 overrides this)


class Profile:
    pid = "C03"
    corpus = "c03"
    gen = "c03"
    n_quick, n_thorough = 400, 15000
    what = "return value or call trace"

    @staticmethod
    def project(o):
        """the part of an outcome the property's oracle compares"""
        return o

    @staticmethod
    def nontrivial(feat):
        return bool(feat["shape"]) and feat["ncalls"] >= 1


# ============================================================================ S-expressions

_BIN = {ast.Add: "+", ast.Sub: "-", ast.Mult: "*"}
_CMP = {ast.Lt: "<", ast.LtE: "<=", ast.Gt: ">", ast.GtE: ">=", ast.Eq: "==", ast.NotEq: "!="}
_PRIM_ATTR = {"is_some": "issome", "unwrap_nothing": "unwrapnothing", "unwrap": "unwrap"}


class OutsideProtocol(Exception):
    """an ast node the line protocol cannot express (harness or generator bug, or a mutated builder)"""


def sx_var(name: str) -> str:
    if name.startswith("%tmp"):
        return f"(t {name[4:]})"
    return f"(n {name})"


def sx_expr(e) -> str:
    """ast expression (surface, or residual after building) -> protocol S-expression"""
    tn = type(e).__name__
    if tn == "MakeIter":
        return f"(prim makeiter {sx_expr(e.value)})"
    if tn == "IterNext":
        return f"(prim iternext {sx_expr(e.value)})"
    if isinstance(e, ast.Name):
        return sx_var(e.id)
    if isinstance(e, ast.Constant):
        if isinstance(e.value, bool):
            return f"(b {int(e.value)})"
        if isinstance(e.value, int):
            return f"(i {e.value})"
        raise OutsideProtocol(f"constant {e.value!r}")
    if isinstance(e, ast.UnaryOp):
        if isinstance(e.op, ast.USub):
            return f"(neg {sx_expr(e.operand)})"
        if isinstance(e.op, ast.Not):
            return f"(not {sx_expr(e.operand)})"
        raise OutsideProtocol(ast.dump(e.op))
    if isinstance(e, ast.BinOp):
        if type(e.op) not in _BIN:
            raise OutsideProtocol(ast.dump(e.op))
        return f"(bin {_BIN[type(e.op)]} {sx_expr(e.left)} {sx_expr(e.right)})"
    if isinstance(e, ast.BoolOp):
        tag = "and" if isinstance(e.op, ast.And) else "or"
        vals = [sx_expr(v) for v in e.values]
        acc = vals[-1]
        for v in reversed(vals[:-1]):
            acc = f"({tag} {v} {acc})"
        return acc
    if isinstance(e, ast.Compare):
        ops = [_CMP.get(type(o)) for o in e.ops]
        if None in ops:
            raise OutsideProtocol("comparison operator")
        if len(ops) == 1:
            return f"(cmp {ops[0]} {sx_expr(e.left)} {sx_expr(e.comparators[0])})"
        if len(ops) == 2:
            return (f"(cmp2 {ops[0]} {ops[1]} {sx_expr(e.left)} {sx_expr(e.comparators[0])} "
                    f"{sx_expr(e.comparators[1])})")
        raise OutsideProtocol("chained comparison with more than 3 operands")
    if isinstance(e, ast.IfExp):
        return f"(if {sx_expr(e.test)} {sx_expr(e.body)} {sx_expr(e.orelse)})"
    if isinstance(e, ast.NamedExpr):
        return f"(walrus {sx_var(e.target.id)} {sx_expr(e.value)})"
    if isinstance(e, ast.Call):
        if e.keywords:
            raise OutsideProtocol("keyword arguments")
        if isinstance(e.func, ast.Attribute) and e.func.attr in _PRIM_ATTR and not e.args:
            return f"(prim {_PRIM_ATTR[e.func.attr]} {sx_expr(e.func.value)})"
        if isinstance(e.func, ast.Name):
            if e.func.id == "range" and len(e.args) == 1:
                return f"(prim range {sx_expr(e.args[0])})"
            if len(e.args) <= 2:
                return "(" + " ".join([f"call{len(e.args)}", e.func.id, *map(sx_expr, e.args)]) + ")"
        raise OutsideProtocol("call shape")
    raise OutsideProtocol(tn)


def sx_block_stmt(s) -> str:
    """statement found in a basic block after building"""
    if isinstance(s, ast.Assign):
        if len(s.targets) != 1:
            raise OutsideProtocol("multiple assignment targets")
        t = s.targets[0]
        if isinstance(t, ast.Name):
            return f"(assign {sx_var(t.id)} {sx_expr(s.value)})"
        if isinstance(t, ast.Tuple) and len(t.elts) == 2 and all(isinstance(x, ast.Name) for x in t.elts):
            return f"(assign2 {sx_var(t.elts[0].id)} {sx_var(t.elts[1].id)} {sx_expr(s.value)})"
        raise OutsideProtocol("assignment target")
    if isinstance(s, ast.AugAssign):
        if not isinstance(s.target, ast.Name) or type(s.op) not in _BIN:
            raise OutsideProtocol("augmented assignment")
        return f"(aug {sx_var(s.target.id)} {_BIN[type(s.op)]} {sx_expr(s.value)})"
    if isinstance(s, ast.Expr):
        return f"(expr {sx_expr(s.value)})"
    if isinstance(s, ast.Return):
        return "(ret0)" if s.value is None else f"(ret {sx_expr(s.value)})"
    raise OutsideProtocol(type(s).__name__)


def sx_surface_stmts(body) -> str:
    return "(" + " ".join(sx_surface_stmt(s) for s in body) + ")"


def sx_surface_stmt(s) -> str:
    if isinstance(s, (ast.Assign, ast.AugAssign, ast.Expr, ast.Return)):
        if isinstance(s, ast.Assign) and not (len(s.targets) == 1 and isinstance(s.targets[0], ast.Name)):
            raise OutsideProtocol("surface assignment target")
        return sx_block_stmt(s)
    if isinstance(s, ast.Pass):
        return "(pass)"
    if isinstance(s, ast.Break):
        return "(break)"
    if isinstance(s, ast.Continue):
        return "(continue)"
    if isinstance(s, ast.If):
        return f"(ite {sx_expr(s.test)} {sx_surface_stmts(s.body)} {sx_surface_stmts(s.orelse)})"
    if isinstance(s, ast.While):
        if s.orelse:
            raise OutsideProtocol("while-else")
        return f"(while {sx_expr(s.test)} {sx_surface_stmts(s.body)})"
    if isinstance(s, ast.For):
        if s.orelse or not isinstance(s.target, ast.Name):
            raise OutsideProtocol("for shape")
        return f"(for {sx_var(s.target.id)} {sx_expr(s.iter)} {sx_surface_stmts(s.body)})"
    raise OutsideProtocol(type(s).__name__)


def surface_request(source: str) -> str:
    """the statement list `(s*)` of the protocol for the body of `def main(x, y, z): ...`"""
    return sx_surface_stmts(ast.parse(source).body[0].body)


_T = re.compile(r"\(t (\d+)\)")


def renumber(s: str) -> str:
    """rename temporaries `(t k)` to 0,1,2,... in ascending order of k (PROTOCOL.md)"""
    ks = sorted({int(k) for k in _T.findall(s)})
    m = {k: i for i, k in enumerate(ks)}
    return _T.sub(lambda mo: f"(t {m[int(mo.group(1))]})", s)


def norm_sx(s: str) -> str:
    s = re.sub(r"\s+", " ", s.strip())
    return s.replace("( ", "(").replace(" )", ")")


# ============================================================================ the real builder


def real_build(source: str, rn: int):
    """Drive the real CFGBuilder. -> (status, cfg): status 'ok' | 'err expected-return' | 'err internal' | 'exception:X'"""
    from guppylang_internals.ast_util import annotate_location
    from guppylang_internals.cfg.builder import CFGBuilder
    from guppylang_internals.checker.core import Globals
    from guppylang_internals.checker.errors.generic import ExpectedError
    from guppylang_internals.error import GuppyError, InternalGuppyError

    fn = ast.parse(source).body[0]
    try:
        annotate_location(fn, source, "<gen>", 0)
        cfg = CFGBuilder().build(fn.body, bool(rn), Globals(None))
        return "ok", cfg
    except InternalGuppyError:
        return "err internal", None
    except GuppyError as e:
        if isinstance(getattr(e, "error", None), ExpectedError):
            return "err expected-return", None
        return "exception:GuppyError:" + type(getattr(e, "error", None)).__name__, None
    except RecursionError:
        return "exception:RecursionError", None
    except Exception as e:  # noqa: BLE001
        return "exception:" + type(e).__name__, None


def canon_cfg(cfg) -> str:
    """real CFG -> `(cfg (bb 0 R (stmts ...) (pred ...) (succ ...) (dsucc ...)) ...)`, temporaries renumbered"""
    out = []
    for pos, bb in enumerate(cfg.bbs):
        if bb.idx != pos:
            raise OutsideProtocol(f"block at position {pos} has idx {bb.idx}")
        stmts = " ".join(sx_block_stmt(s) for s in bb.statements)
        pred = "none" if bb.branch_pred is None else sx_expr(bb.branch_pred)
        succ = " ".join(str(s.idx) for s in bb.successors)
        dsucc = " ".join(str(s.idx) for s in bb.dummy_successors)
        out.append(f"(bb {pos} {'R' if bb.reachable else 'U'} (stmts {stmts}) (pred {pred}) (succ {succ}) (dsucc {dsucc}))")
    return norm_sx(renumber("(cfg " + " ".join(out) + ")"))


def struct_facts(cfg) -> list[str]:
    """names of the structural facts (theorems on the Lean side) that FAIL on this real CFG"""
    bad = []
    bbs = cfg.bbs
    if any(len(b.successors) == 2 and b.branch_pred is None for b in bbs):
        bad.append("two-successors-have-branch-pred")
    if any(len(b.successors) > 2 for b in bbs):
        bad.append("at-most-two-successors")
    if any((not b.reachable) and s.reachable for b in bbs for s in b.successors):
        bad.append("no-edge-from-unreachable-into-reachable")
    if any(s.reachable for b in bbs for s in b.dummy_successors):
        bad.append("dummy-edges-only-into-unreachable")
    seen, todo = set(), [cfg.entry_bb]
    while todo:
        b = todo.pop()
        if id(b) in seen:
            continue
        seen.add(id(b))
        todo.extend(b.successors)
    if any(b.reachable != (id(b) in seen) for b in bbs):
        bad.append("reachable-flag-is-graph-reachability")
    if any(b.reachable and not b.successors and b is not cfg.exit_bb for b in bbs):
        bad.append("reachable-nonexit-has-successor")
    if any(b is not cfg.entry_bb and not b.predecessors and not b.dummy_predecessors for b in bbs):
        bad.append("every-block-has-a-real-or-dummy-predecessor")
    if any(p not in s.dummy_predecessors for p in bbs for s in p.dummy_successors) or any(
        s not in p.dummy_successors for s in bbs for p in s.dummy_predecessors
    ):
        bad.append("dummy-predecessor-lists-mirror-dummy-successor-lists")
    if cfg.exit_bb.successors or cfg.exit_bb.statements:
        bad.append("exit-is-empty-sink")
    if any(p not in s.predecessors for p in bbs for s in p.successors) or any(
        s not in p.successors for s in bbs for p in s.predecessors
    ):
        bad.append("predecessor-lists-mirror-successor-lists")
    return bad


# ============================================================================ values, outcomes, externals


class Outcome:
    """kind: 'res' (value, trace) | 'nofuel' | 'err' (error class, trace so far) | 'malformed' (reason)"""

    __slots__ = ("kind", "value", "trace", "ticks")

    def __init__(self, kind, value=None, trace=(), ticks=0):
        self.kind, self.value, self.trace, self.ticks = kind, value, list(trace), ticks

    def show(self) -> str:
        if self.kind == "res":
            return f"(res {fmt_val(self.value)} {fmt_trace(self.trace)})"
        if self.kind == "nofuel":
            return "nofuel"
        return f"{self.kind} {self.value} {fmt_trace(self.trace)}"

    def key(self):
        return (self.kind, fmt_val(self.value) if self.kind == "res" else str(self.value), fmt_trace(self.trace))


def fmt_val(v) -> str:
    if v is None:
        return "none"
    if isinstance(v, bool):
        return f"b:{int(v)}"
    if isinstance(v, int):
        return f"i:{v}"
    return "other:" + type(v).__name__


def fmt_trace(tr) -> str:
    evs = " ".join("(" + f + " (" + " ".join(fmt_val(a) for a in args) + ") " + fmt_val(r) + ")" for f, args, r in tr)
    return norm_sx(f"(trace {evs})")


def ext_result(name: str, args, k: int):
    r = 17 * k + 31 * sum(int(a) for a in args) + 7 * ord(name[0])
    if name[0] in BOOL_EXT:
        return r % 3 == 0
    return (r % 11) - 5


def make_externals(trace: list) -> dict:
    def mk(name):
        def ext(*args):
            res = ext_result(name, args, len(trace))
            trace.append((name, tuple(args), res))
            return res

        ext.__name__ = name
        return ext

    return {n: mk(n) for n in INT_EXT + BOOL_EXT}


class _Timeout(Exception):
    pass


def _err_class(e: BaseException) -> str:
    return "unbound" if isinstance(e, NameError) else type(e).__name__


# ============================================================================ oracle: CPython on the source text


class _Ticker(ast.NodeTransformer):
    def _loop(self, node):
        self.generic_visit(node)
        tick = ast.Expr(ast.Call(ast.Name("__tick", ast.Load()), [], []))
        node.body = [tick, *node.body]
        return node

    visit_While = _loop
    visit_For = _loop


class PyProg:
    """the generated source compiled by CPython (loop bodies instrumented with a tick in a COPY of the tree)"""

    def __init__(self, source: str):
        self.error = None
        try:
            tree = ast.parse(source)
            self.fname = tree.body[0].name
            tree = ast.fix_missing_locations(_Ticker().visit(tree))
            self.code = compile(tree, "<gen>", "exec")
        except SyntaxError as e:  # e.g. break outside loop
            self.code = None
            self.error = e.msg

    def run(self, args: dict, ticks: int = PY_TICKS) -> Outcome:
        trace: list = []
        env = make_externals(trace)
        n = [0]

        def tick():
            n[0] += 1
            if n[0] > ticks:
                raise _Timeout

        env["__tick"] = tick
        exec(self.code, env)
        try:
            v = env[self.fname](**args)
        except _Timeout:
            return Outcome("nofuel", ticks=n[0])
        except Exception as e:  # noqa: BLE001
            return Outcome("err", _err_class(e), trace, n[0])
        return Outcome("res", v, trace, n[0])


# ============================================================================ interpreter for the REAL CFG


class _Opt:
    def __init__(self, it):
        self.it = it
        try:
            self.v = next(it)
            self.some = True
        except StopIteration:
            self.some = False

    def is_some(self):
        return self.some

    def unwrap(self):
        if not self.some:
            raise ValueError("unwrap of nothing")
        return (self.v, self.it)

    def unwrap_nothing(self):
        if self.some:
            raise ValueError("unwrap_nothing of some")
        return None


def _pyname(x: str) -> str:
    return "_tmp" + x[4:] if x.startswith("%tmp") else x


def _clean(node, store=False):
    """rebuild a plain, compilable ast from a (possibly custom / annotated) real ast node; expression contexts are
    recomputed from the position (the builder leaves Store names in load positions and `ctx=ast.Load` classes)"""
    if isinstance(node, list):
        return [_clean(x, store) for x in node]
    if not isinstance(node, ast.AST):
        return node
    tn = type(node).__name__
    if tn == "MakeIter":
        return ast.Call(ast.Name("__mkiter", ast.Load()), [_clean(node.value)], [])
    if tn == "IterNext":
        return ast.Call(ast.Name("__iternext", ast.Load()), [_clean(node.value)], [])
    if type(node).__module__ not in ("ast", "_ast"):
        raise OutsideProtocol("cannot execute node " + tn)
    ctx = ast.Store() if store else ast.Load()
    if isinstance(node, ast.Name):
        return ast.Name(_pyname(node.id), ctx)
    if isinstance(node, ast.Tuple):
        return ast.Tuple([_clean(x, store) for x in node.elts], ctx)
    if isinstance(node, ast.Assign):
        return ast.Assign(_clean(node.targets, True), _clean(node.value))
    if isinstance(node, ast.AugAssign):
        return ast.AugAssign(_clean(node.target, True), type(node.op)(), _clean(node.value))
    if isinstance(node, ast.NamedExpr):
        return ast.NamedExpr(_clean(node.target, True), _clean(node.value))
    if isinstance(node, ast.Attribute):
        return ast.Attribute(_clean(node.value), node.attr, ctx)
    if isinstance(node, ast.Return):
        v = ast.Constant(None) if node.value is None else _clean(node.value)
        return ast.Assign([ast.Tuple([ast.Name("__ret", ast.Store()), ast.Name("__returned", ast.Store())], ast.Store())],
                          ast.Tuple([v, ast.Constant(True)], ast.Load()))
    if isinstance(node, (ast.expr_context,)):
        return ast.Load()
    return type(node)(**{f: _clean(getattr(node, f, None)) for f in node._fields})


class CfgProg:
    """the real CFG, with every block compiled from the real statement nodes"""

    def __init__(self, cfg):
        self.n = len(cfg.bbs)
        self.entry = cfg.entry_bb.idx
        self.exit = cfg.exit_bb.idx
        self.code, self.pred, self.succ = [], [], []
        for bb in cfg.bbs:
            body = [_clean(s) for s in bb.statements]
            self.code.append(
                compile(ast.fix_missing_locations(ast.Module(body, [])), f"<bb{bb.idx}>", "exec") if body else None
            )
            self.pred.append(
                None if bb.branch_pred is None
                else compile(ast.fix_missing_locations(ast.Expression(_clean(bb.branch_pred))), f"<pred{bb.idx}>", "eval")
            )
            self.succ.append([s.idx for s in bb.successors])

    def run(self, args: dict, budget: int) -> Outcome:
        trace: list = []
        env = make_externals(trace)
        env["__mkiter"] = iter
        env["__iternext"] = _Opt
        env["__ret"] = None
        env["__returned"] = False
        env.update(args)
        cur, steps = self.entry, 0
        try:
            while True:
                if self.code[cur] is not None:
                    exec(self.code[cur], env)
                succ = self.succ[cur]
                if cur == self.exit:
                    if succ:
                        return Outcome("malformed", "exit-has-successors", trace)
                    return Outcome("res", env["__ret"], trace)
                if env["__returned"] and succ != [self.exit]:
                    return Outcome("malformed", f"return-block-{cur}-does-not-lead-to-exit", trace)
                if len(succ) == 1:
                    cur = succ[0]
                elif len(succ) == 2:
                    if self.pred[cur] is None:
                        return Outcome("malformed", f"block-{cur}-two-successors-no-pred", trace)
                    cur = succ[1] if eval(self.pred[cur], env) else succ[0]
                elif not succ:
                    return Outcome("malformed", f"block-{cur}-dead-end", trace)
                else:
                    return Outcome("malformed", f"block-{cur}-has-{len(succ)}-successors", trace)
                steps += 1
                if steps > budget:
                    return Outcome("nofuel")
        except Exception as e:  # noqa: BLE001
            return Outcome("err", _err_class(e), trace)


# ============================================================================ hoist-safety (Python copy of the Lean predicate)


def _is_chain(e):
    return isinstance(e, ast.Compare) and len(e.comparators) > 1


def _is_lifted(e):
    return isinstance(e, (ast.IfExp, ast.BoolOp, ast.NamedExpr)) or _is_chain(e)


def _lifts(e):
    return any(_is_lifted(n) for n in ast.walk(e))


def _kids(e):
    if isinstance(e, ast.Call):
        return list(e.args)
    return [c for c in ast.iter_child_nodes(e) if isinstance(c, ast.expr)]


def _res_calls(e):
    if _is_lifted(e):
        return False
    if isinstance(e, ast.Call):
        return True
    return any(_res_calls(c) for c in _kids(e))


def _res_reads(e):
    if isinstance(e, ast.NamedExpr):
        return {e.target.id}
    if _is_lifted(e):
        return set()
    if isinstance(e, ast.Name):
        return {e.id}
    out = set()
    for c in _kids(e):
        out |= _res_reads(c)
    return out


def _writes(e):
    return {n.target.id for n in ast.walk(e) if isinstance(n, ast.NamedExpr)}


def _has_call(e):
    return any(isinstance(n, ast.Call) for n in ast.walk(e))


def _sib(ops):
    for j, cj in enumerate(ops):
        if _lifts(cj):
            w = _writes(cj)
            for ci in ops[:j]:
                if _res_calls(ci) or (_res_reads(ci) & w):
                    return {"sibling"}
    return set()


def hs_expr(e) -> set:
    """subset of {'chain','sibling','unsupported'} describing how `e` leaves the hoist-safe fragment"""
    if isinstance(e, (ast.Name, ast.Constant)):
        return set()
    out = set()
    if isinstance(e, ast.NamedExpr):
        return hs_expr(e.value)
    if _is_chain(e):
        ops = [e.left, *e.comparators]
        for o in ops:
            out |= hs_expr(o)
        for a, b in zip(ops, ops[1:]):
            out |= _sib([a, b])
        for m in ops[1:-1]:
            if _has_call(m) or _writes(m):
                out.add("chain")
            if _lifts(m) or _double_neg_literal(m) or len(ops) > 3:
                out.add("unsupported")
        return out
    kids = _kids(e)
    for k in kids:
        out |= hs_expr(k)
    if not isinstance(e, (ast.IfExp, ast.BoolOp)):
        out |= _sib(kids)
    return out


def _double_neg_literal(m):
    for n in ast.walk(m):
        if (isinstance(n, ast.UnaryOp) and isinstance(n.op, ast.USub) and isinstance(n.operand, ast.UnaryOp)
                and isinstance(n.operand.op, ast.USub) and isinstance(n.operand.operand, ast.Constant)):
            return True
    return False


def hs_stmt_flags(s) -> set:
    out = set()
    for n in ast.walk(s):
        if isinstance(n, ast.AugAssign):
            out |= hs_expr(n.value) | _sib([n.target, n.value])
        elif isinstance(n, (ast.Assign, ast.Expr)):
            out |= hs_expr(n.value)
        elif isinstance(n, ast.Return) and n.value is not None:
            out |= hs_expr(n.value)
        elif isinstance(n, (ast.If, ast.While)):
            out |= hs_expr(n.test)
        elif isinstance(n, ast.For):
            out |= hs_expr(n.iter)
    return out


def hs_flags_source(source: str) -> set:
    return hs_stmt_flags(ast.parse(source).body[0])


def hs_class(flags: set) -> str:
    return "chain" if "chain" in flags else "sibling" if "sibling" in flags else "safe"


def hs_source(source: str) -> str:
    return hs_class(hs_flags_source(source))


# ============================================================================ features / shape tag


def features(source: str) -> dict:
    fn = ast.parse(source).body[0]
    f = set()
    ncalls = 0
    for n in ast.walk(fn):
        if isinstance(n, ast.If):
            f.add("if")
        elif isinstance(n, ast.While):
            f.add("while")
        elif isinstance(n, ast.For):
            f.add("for")
        elif isinstance(n, ast.IfExp):
            f.add("ifexp")
        elif isinstance(n, ast.BoolOp):
            f.add("boolop")
        elif isinstance(n, ast.NamedExpr):
            f.add("walrus")
        elif _is_chain(n):
            f.add("chain")
        elif isinstance(n, (ast.Break, ast.Continue)):
            f.add("jump")
        elif isinstance(n, ast.Call) and isinstance(n.func, ast.Name) and n.func.id != "range":
            ncalls += 1
        if isinstance(n, (ast.If, ast.While, ast.IfExp)):
            t = n.test
            while isinstance(t, ast.UnaryOp) and isinstance(t.op, ast.Not):
                t = t.operand
            if isinstance(t, ast.Constant) and isinstance(t.value, bool):
                f.add("const-cond")
    ctrl = next((k for k in ("for", "while", "if") if k in f), None)
    lift = next((k for k in ("chain", "walrus", "ifexp", "boolop") if k in f), None)
    return {"set": f, "ncalls": ncalls, "shape": [k for k in (ctrl, lift) if k]}


def shape_tag(feat: dict, unreachable: bool) -> str:
    parts = list(feat["shape"]) or ["straight"]
    if unreachable:
        parts.append("unreach")
    elif "const-cond" in feat["set"]:
        parts.append("const-cond")
    return "+".join(parts)


# ============================================================================ generator (type-directed, builds ast nodes)


def _name(x, store=False):
    return ast.Name(x, ast.Store() if store else ast.Load())


def _const(v):
    return ast.Constant(v)


def _call(f, args):
    return ast.Call(_name(f), list(args), [])


class Gen:
    INT_LOCALS = ("a", "e")
    BOOL_LOCALS = ("b", "d")
    COUNTERS = ("n", "m")
    LOOPVARS = ("i", "j")

    def __init__(self, rng, profile="c03", small=False, unsafe=None):
        self.r = rng
        self.profile = profile
        self.unsafe = (rng.random() < 0.2) if unsafe is None else unsafe
        self.rn = 1 if rng.random() < (0.3 if profile == "c03" else 0.2) else 0
        self.ret_bool = rng.random() < 0.35
        if profile == "c05":
            self.budget = rng.randint(1, 4) if small else rng.randint(2, 7)
            self.maxd = rng.choice([0, 1, 1, 2])
            self.ed = 2 if small else rng.choice([2, 3, 3, 4])
        else:
            self.budget = rng.randint(2, 5) if small else rng.randint(3, 12)
            self.maxd = 2 if small else rng.choice([1, 2, 3, 3, 4])
            self.ed = rng.choice([1, 2, 2]) if small else rng.choice([1, 2, 2, 3])
        self.loopdepth = 0

    # ---------------------------------------------------------------- expressions
    def pick(self, table):
        tot = sum(w for _, w in table)
        x = self.r.random() * tot
        for k, w in table:
            x -= w
            if x < 0:
                return k
        return table[-1][0]

    def int_vars(self, env):
        return [v for v in (*PARAMS, *self.INT_LOCALS, *self.LOOPVARS, *self.COUNTERS) if v in env]

    def int_atom(self, env):
        r = self.r.random()
        if r < 0.6:
            return _name(self.r.choice(self.int_vars(env)))
        if r < 0.88:
            return _const(self.r.randint(0, 5))
        return ast.UnaryOp(ast.USub(), _const(self.r.randint(1, 5)))

    def int_call(self, d, env):
        k = self.r.choice([0, 1, 1, 2])
        return _call(self.r.choice(INT_EXT), [self.int_expr(d - 1, env) for _ in range(k)])

    def bool_call(self, d, env):
        k = self.r.choice([0, 0, 1, 2])
        return _call(self.r.choice(BOOL_EXT), [self.int_expr(d - 1, env) for _ in range(k)])

    def walrus_targets(self, env, boolean):
        pool = self.BOOL_LOCALS if boolean else (*PARAMS, *self.INT_LOCALS)
        return [v for v in pool if v in env]

    def int_expr(self, d, env):
        if d <= 0 or self.r.random() < 0.25:
            return self.int_atom(env)
        c5 = self.profile == "c05"
        k = self.pick([("bin", 4), ("mul", 1), ("neg", 0.7), ("call", 5 if c5 else 3), ("ifexp", 1.6), ("walrus", 0.9)])
        if k == "bin":
            return ast.BinOp(self.int_expr(d - 1, env), self.r.choice([ast.Add, ast.Sub])(), self.int_expr(d - 1, env))
        if k == "mul":
            c, e = _const(self.r.randint(0, 3)), self.int_expr(d - 1, env)
            return ast.BinOp(c, ast.Mult(), e) if self.r.random() < 0.5 else ast.BinOp(e, ast.Mult(), c)
        if k == "neg":
            return ast.UnaryOp(ast.USub(), self.int_expr(d - 1, env))
        if k == "call":
            return self.int_call(d, env)
        if k == "ifexp":
            return ast.IfExp(self.bool_expr(d - 1, env), self.int_expr(d - 1, env), self.int_expr(d - 1, env))
        ts = self.walrus_targets(env, False)
        if not ts:
            return self.int_atom(env)
        return ast.NamedExpr(_name(self.r.choice(ts), True), self.int_expr(d - 1, env))

    def cmp_op(self):
        return self.r.choice([ast.Lt, ast.LtE, ast.Gt, ast.GtE, ast.Eq, ast.NotEq])()

    def chain_middle(self, d, env):
        r = self.r.random()
        if self.unsafe and r < 0.45:
            return self.int_call(min(d, 1), env)
        if r < 0.02:  # outside the model (lifted middle operand): keep rare
            return ast.IfExp(self.bool_expr(0, env), self.int_atom(env), self.int_atom(env))
        if r < 0.75:
            return self.int_atom(env)
        return ast.BinOp(self.int_atom(env), self.r.choice([ast.Add, ast.Sub])(), self.int_atom(env))

    def bool_expr(self, d, env):
        bvs = [v for v in self.BOOL_LOCALS if v in env]
        if d <= 0 or self.r.random() < 0.2:
            r = self.r.random()
            if bvs and r < 0.3:
                return _name(self.r.choice(bvs))
            if r < 0.45:
                return _call(self.r.choice(BOOL_EXT), [])
            if r < 0.5:
                return _const(self.r.random() < 0.5)
            return ast.Compare(self.int_atom(env), [self.cmp_op()], [self.int_atom(env)])
        c5 = self.profile == "c05"
        k = self.pick([("cmp", 4), ("chain", 1.6 if c5 else 1.2), ("boolop", 3), ("not", 1), ("call", 4 if c5 else 2.5),
                       ("ifexp", 0.8), ("walrus", 0.4 if bvs else 0), ("notint", 0.3)])
        if k == "cmp":
            return ast.Compare(self.int_expr(d - 1, env), [self.cmp_op()], [self.int_expr(d - 1, env)])
        if k == "chain":
            return ast.Compare(self.int_expr(d - 1, env), [self.cmp_op(), self.cmp_op()],
                               [self.chain_middle(d - 1, env), self.int_expr(d - 1, env)])
        if k == "boolop":
            n = 2 if self.r.random() < 0.7 else 3
            return ast.BoolOp(self.r.choice([ast.And, ast.Or])(), [self.bool_expr(d - 1, env) for _ in range(n)])
        if k == "not":
            return ast.UnaryOp(ast.Not(), self.bool_expr(d - 1, env))
        if k == "call":
            return self.bool_call(d, env)
        if k == "ifexp":
            return ast.IfExp(self.bool_expr(d - 1, env), self.bool_expr(d - 1, env), self.bool_expr(d - 1, env))
        if k == "walrus":
            return ast.NamedExpr(_name(self.r.choice(bvs), True), self.bool_expr(d - 1, env))
        return ast.UnaryOp(ast.Not(), _name(self.r.choice(self.int_vars(env))))

    def d9_expr(self, env, boolean):
        """deliberately hoist-unsafe shapes (defect D9)"""
        r = self.r
        v = r.choice([p for p in PARAMS])
        g = lambda: self.int_call(1, env)  # noqa: E731
        lifted = r.choice([
            lambda: ast.IfExp(self.bool_call(1, env), g(), g()),
            lambda: ast.NamedExpr(_name(v, True), g()),
            lambda: ast.NamedExpr(_name(v, True), _const(r.randint(0, 5))),
            lambda: ast.IfExp(ast.BoolOp(r.choice([ast.And, ast.Or])(), [self.bool_call(1, env), self.bool_call(1, env)]),
                              self.int_atom(env), self.int_atom(env)),
        ])()
        left = g() if r.random() < 0.6 else _name(v)
        if boolean:
            k = r.random()
            if k < 0.5:
                return ast.Compare(self.int_atom(env), [self.cmp_op(), self.cmp_op()], [g(), self.int_atom(env)])
            if k < 0.75:
                return ast.Compare(left, [self.cmp_op()], [lifted])
            return _call(r.choice(BOOL_EXT), [left, lifted])
        if r.random() < 0.75:
            return ast.BinOp(left, r.choice([ast.Add, ast.Sub])(), lifted)
        return _call(r.choice(INT_EXT), [left, lifted])

    def expr(self, env, boolean, d=None, pre=()):
        """expression of the wanted type; hoist-safe unless the program is marked unsafe.
        `pre`: implicit left siblings (the target of an augmented assignment)"""
        d = self.ed if d is None else d
        if self.unsafe and self.r.random() < 0.3:
            return self.d9_expr(env, boolean)
        for _ in range(8):
            e = self.bool_expr(d, env) if boolean else self.int_expr(d, env)
            if self.unsafe:
                return e
            fl = hs_expr(e) | (_sib([*pre, e]) if pre else set())
            if fl & {"chain", "sibling"}:
                continue
            if self.profile == "c05" and _ < 3 and not _has_call(e):
                continue  # C05: prefer expressions that perform calls
            return e
        return self.bool_expr(0, env) if boolean else self.int_atom(env)

    def cond(self, env):
        r = self.r.random()
        if r < 0.07:
            return _const(self.r.random() < 0.5)
        if r < 0.09:
            return ast.UnaryOp(ast.Not(), _const(self.r.random() < 0.5))
        if r < 0.13:
            return _name(self.r.choice(self.int_vars(env)))
        return self.expr(env, True)

    # ---------------------------------------------------------------- statements
    def simple(self, env):
        """one non-control statement; updates env"""
        r = self.r
        k = self.pick([("assign", 5), ("aug", 2), ("expr", 2.5 if self.profile == "c03" else 4), ("pass", 0.4)])
        if k == "assign":
            if r.random() < 0.3:
                t = r.choice(self.BOOL_LOCALS)
                s = ast.Assign([_name(t, True)], self.expr(env, True))
            else:
                t = r.choice([*PARAMS, *self.INT_LOCALS, *[v for v in self.LOOPVARS if v in env]])
                s = ast.Assign([_name(t, True)], self.expr(env, False))
            env.add(t)
            return s
        if k == "aug":
            t = r.choice([v for v in (*PARAMS, *self.INT_LOCALS) if v in env])
            if r.random() < 0.15:
                return ast.AugAssign(_name(t, True), ast.Mult(), _const(r.randint(0, 3)))
            return ast.AugAssign(_name(t, True), r.choice([ast.Add, ast.Sub])(), self.expr(env, False, pre=[_name(t)]))
        if k == "expr":
            q = r.random()
            if q < 0.5:
                e = self.int_call(self.ed, env) if r.random() < 0.5 else self.bool_call(self.ed, env)
                if not self.unsafe and (hs_expr(e) & {"chain", "sibling"}):
                    e = _call(r.choice(INT_EXT), [self.int_atom(env)])
                return ast.Expr(e)
            return ast.Expr(self.expr(env, q < 0.8))  # incl. bare IfExp / BoolOp statements
        return ast.Pass()

    def ret(self, env):
        if self.rn:
            return ast.Return(None)
        return ast.Return(self.expr(env, self.ret_bool))

    def block(self, d, env, loop, lo=1, hi=3):
        out = []
        for _ in range(self.r.randint(lo, hi)):
            if self.budget <= 0:
                break
            stmts, jumped = self.stmt(d, env, loop)
            out += stmts
            if jumped:
                if self.r.random() < 0.25:  # unreachable tail
                    for _ in range(self.r.randint(1, 2)):
                        out.append(self.simple(set(env)) if self.r.random() < 0.8 else self.ret(env))
                return out, True
        if not out:
            out = [ast.Pass()]
        return out, False

    def stmt(self, d, env, loop):
        """-> (list of statements, ends-in-jump)"""
        r = self.r
        self.budget -= 1
        ctrl = d > 0
        c3 = self.profile == "c03"
        k = self.pick([("simple", 6 if c3 else 8), ("if", 4 if ctrl else 0), ("while", (2.2 if c3 else 0.8) if ctrl else 0),
                       ("for", (1.8 if c3 else 0.6) if ctrl else 0), ("jump", 1.2 if loop else 0),
                       ("return", 0.5 if d < self.maxd else 0.15), ("stray", 0.012 if not loop else 0)])
        if k == "simple":
            return [self.simple(env)], False
        if k == "return":
            return [self.ret(env)], True
        if k == "jump":
            return [ast.Break() if r.random() < 0.5 else ast.Continue()], True
        if k == "stray":  # break/continue outside a loop: InternalGuppyError in the real builder
            return [ast.Break() if r.random() < 0.5 else ast.Continue()], True
        if k == "if":
            return self.gen_if(d, env, loop)
        if k == "while":
            return self.gen_while(d, env), False
        return self.gen_for(d, env), False

    def gen_if(self, d, env, loop, elif_depth=0):
        r = self.r
        test = self.cond(env)
        e1, e2 = set(env), set(env)
        body, j1 = self.block(d - 1, e1, loop)
        q = r.random()
        if q < 0.35:
            orelse, j2 = [], False
        elif q < 0.55 and elif_depth < 2 and self.budget > 0:
            self.budget -= 1
            s, j2 = self.gen_if(d, e2, loop, elif_depth + 1)
            orelse = s
        else:
            orelse, j2 = self.block(d - 1, e2, loop)
        new = e2 if j1 else e1 if (j2 and orelse) else (e1 & e2)
        env.clear()
        env.update(new)
        return [ast.If(test, body, orelse)], bool(j1 and j2 and orelse)

    def gen_while(self, d, env):
        r = self.r
        pre = []
        lvl = self.loopdepth
        style = self.pick([("counter", 5 if lvl < 2 else 0), ("truebreak", 2.5), ("ext", 1.5), ("false", 0.5),
                           ("intvar", 0.7 if lvl < 2 else 0)])
        benv = set(env)
        head = []
        use_counter = lvl < 2 and (style in ("counter", "intvar") or (style == "truebreak" and r.random() < 0.65))
        if use_counter:
            n = self.COUNTERS[lvl]
            init = _const(r.randint(0, 3)) if r.random() < 0.75 else ast.BinOp(_name(r.choice(PARAMS)), ast.Sub(), _const(r.randint(0, 2)))
            if style == "intvar":
                init = _const(r.randint(0, 3))
            pre.append(ast.Assign([_name(n, True)], init))
            env.add(n)
            benv.add(n)
            dec = ast.AugAssign(_name(n, True), ast.Sub(), _const(1))
        if style == "counter":
            test = ast.Compare(_name(n), [ast.Gt()], [_const(0)])
            q = r.random()
            if q < 0.2:
                test = ast.BoolOp(ast.And(), [test, self.expr(benv, True, d=1)])
            elif q < 0.3:
                test = ast.UnaryOp(ast.Not(), ast.Compare(_name(n), [ast.LtE()], [_const(0)]))
            elif q < 0.4:
                test = ast.Compare(_const(0), [ast.Lt(), ast.LtE()], [_name(n), _const(r.randint(2, 5))])
            head = [dec]
        elif style == "intvar":
            test = _name(n)
            head = [dec]
        elif style == "truebreak":
            test = _const(True) if r.random() < 0.85 else ast.UnaryOp(ast.Not(), _const(False))
            if use_counter:
                head = [ast.If(ast.Compare(_name(n), [ast.LtE()], [_const(0)]), [ast.Break()], []), dec]
            else:
                head = None  # random break inside the body
        elif style == "ext":
            test = self.bool_call(1, benv) if r.random() < 0.7 else self.expr(benv, True, d=2)
        else:
            test = _const(False)
        self.loopdepth += 1
        body, _ = self.block(d - 1, benv, True)
        self.loopdepth -= 1
        if head is None:
            brk = ast.If(self.expr(set(env), True, d=1), [ast.Break()], [])
            pos = r.randint(0, len(body))
            body = body[:pos] + [brk] + body[pos:]
        else:
            body = head + body
        return pre + [ast.While(test, body, [])]

    def gen_for(self, d, env):
        r = self.r
        v = self.LOOPVARS[min(self.loopdepth, 1)]
        q = r.random()
        if q < 0.45:
            bound = _const(r.randint(0, 3))
        elif q < 0.75:
            bound = _name(r.choice(PARAMS))
        elif q < 0.9:
            bound = ast.BinOp(_name(r.choice(PARAMS)), r.choice([ast.Add, ast.Sub])(), _const(r.randint(0, 2)))
        else:
            bound = self.expr(env, False, d=2)
        benv = set(env) | {v}
        self.loopdepth += 1
        body, _ = self.block(d - 1, benv, True)
        self.loopdepth -= 1
        return [ast.For(_name(v, True), _call("range", [bound]), body, [])]

    # ---------------------------------------------------------------- whole program
    def program(self):
        env = set(PARAMS)
        body, jumped = self.block(self.maxd, env, False, lo=1, hi=max(1, min(6, self.budget)))
        if not jumped:
            if self.rn == 0 and self.r.random() < 0.96:
                body.append(self.ret(env))
                jumped = True
            elif self.rn == 1 and self.r.random() < 0.2:
                body.append(ast.Return(None))
                jumped = True
        if jumped and self.r.random() < 0.1:
            body.append(self.simple(set(env)))
        args = ast.arguments(posonlyargs=[], args=[ast.arg(p) for p in PARAMS], kwonlyargs=[], kw_defaults=[], defaults=[])
        fn = ast.FunctionDef(FNAME, args, body, [], **({"type_params": []} if sys.version_info >= (3, 12) else {}))
        return ast.unparse(ast.fix_missing_locations(ast.Module([fn], []))) + "\n", self.rn


def gen_program(rng, profile="c03", small=False, unsafe=None):
    """-> (source, rn). The source text is canonical (ast.unparse) and is the identity of the program."""
    for _ in range(20):
        src, rn = Gen(rng, profile, small, unsafe).program()
        try:
            surface_request(src)
        except OutsideProtocol:
            continue
        return src, rn
    return "def main(x, y, z):\n    return x\n", 0


INPUT_POOL = [(0, 0, 0), (1, 2, 3), (-1, 0, 2), (3, -2, 1), (2, 2, 2), (-3, -1, -2), (5, 1, 0), (0, 4, -1)]


def gen_inputs(rng, k=3):
    out = [rng.choice(INPUT_POOL)]
    while len(out) < k:
        t = tuple(rng.randint(-3, 5) for _ in range(3))
        if t not in out:
            out.append(t)
    return [list(t) for t in out]


# ============================================================================ real + oracle for one program


def eval_real(source: str, rn: int, inputs, profile=Profile) -> dict:
    """Everything that does not need the Lean driver."""
    res = {"source": source, "rn": rn, "inputs": [list(i) for i in inputs], "runs": [], "facts": [], "canon": None,
           "request": None, "unreachable": False, "harness_error": None}
    res["feat"] = features(source)
    res["pyflags"] = sorted(hs_flags_source(source))
    res["pyhs"] = hs_class(set(res["pyflags"]))
    try:
        res["request"] = surface_request(source)
    except OutsideProtocol as e:
        res["harness_error"] = f"source outside protocol: {e}"
    status, cfg = real_build(source, rn)
    res["status"] = status
    if cfg is None:
        return res
    try:
        res["facts"] = struct_facts(cfg)
        res["unreachable"] = any(not b.reachable for b in cfg.bbs)
    except Exception as e:  # noqa: BLE001
        res["facts"] = ["struct-check-crashed:" + type(e).__name__]
    try:
        res["canon"] = canon_cfg(cfg)
    except OutsideProtocol as e:
        res["canon"] = "uncanonical: " + str(e)
    py = PyProg(source)
    if py.code is None:
        res["py_error"] = py.error
        return res
    try:
        prog = CfgProg(cfg)
    except Exception as e:  # noqa: BLE001
        prog = None
        res["cfg_compile_error"] = f"{type(e).__name__}: {e}"
    for inp in inputs:
        args = dict(zip(PARAMS, inp))
        o_py = py.run(args)
        run = {"args": args, "py": o_py, "cfg": None, "agree": None, "budget": 0}
        if o_py.kind != "nofuel":
            if prog is None:
                o_cfg = Outcome("malformed", "block-not-executable: " + res["cfg_compile_error"])
            else:
                run["budget"] = 2 * (o_py.ticks + 2) * (prog.n + 2)
                o_cfg = prog.run(args, budget=run["budget"])
            run["cfg"] = o_cfg
            run["agree"] = profile.project(o_cfg.key()) == profile.project(o_py.key())
        res["runs"].append(run)
    return res


def _replay(res, run=None, **extra):
    d = {"source": res["source"], "rn": res["rn"], "inputs": res["inputs"], "python_hs": res["pyhs"],
         "real_status": res["status"], "real_cfg": res["canon"]}
    if run is not None:
        d.update(args=run["args"], cpython=run["py"].show(), real_cfg_run=run["cfg"].show() if run["cfg"] else None)
    d.update(extra)
    return d


def report_oracle(ctx, res, hs, profile=Profile):
    """struct facts + real-CFG-vs-CPython disagreements, classified by the hoist-safety verdict `hs`"""
    src = res["source"]
    for fact in res["facts"]:
        ctx.violation(f"struct:{fact}:{src}", f"structural fact `{fact}` fails on the CFG the real builder produces for\n{src}",
                      _replay(res, fact=fact))
    n = 0
    for run in res["runs"]:
        if run["agree"] is False:
            n += 1
            inp = ",".join(f"{k}={v}" for k, v in run["args"].items())
            what = (f"real CFG ({profile.what}) differs from CPython on {inp}: real={run['cfg'].show()[:300]} "
                    f"python={run['py'].show()[:300]} source:\n{src}")
            if hs == "chain":
                ctx.violation(KEY_CHAIN, what, _replay(res, run, hs=hs))
            elif hs == "sibling":
                ctx.violation(KEY_SIBLING, what, _replay(res, run, hs=hs))
            else:
                ctx.violation("input:" + src + "|" + inp, what, _replay(res, run, hs=hs))
    return n


# ============================================================================ model side


def _split_run_reply(s: str):
    """`py OUT cfg OUT` -> (py_out, cfg_out) as normalised strings"""
    s = norm_sx(s)
    m = re.match(r"^py (.*) cfg (\(res .*\)|nofuel|err .*)$", s)
    if not m:
        return None
    return m.group(1), m.group(2)


def _cmp_run(model_out: str, o: Outcome):
    """None = skipped, True/False = compared"""
    if model_out in ("nofuel", "err unsupported") or o is None or o.kind == "nofuel":
        return None
    if o.kind == "err" and o.value == "unbound":
        return None  # the model's store defaults unbound variables
    if model_out.startswith("err"):
        return o.kind == "err"
    return norm_sx(model_out) == norm_sx(o.show())


def run_args_sx(args: dict) -> str:
    return "(args " + " ".join(f"((n {k}) {fmt_val(v)})" for k, v in args.items()) + ")"


def model_phase(ctx, results, profile=Profile):
    """send build/run requests for all evaluated programs; diff; classify oracle disagreements with the model's HS"""
    lines, slots = [], []
    for i, res in enumerate(results):
        if res["request"] is None:
            continue
        lines.append(f"(build {res['rn']} {res['request']})")
        slots.append((i, "build", None))
        if res["status"] == "ok":
            for j, run in enumerate(res["runs"]):
                if run["py"].kind == "res":
                    fuel = min(MODEL_FUEL, 200 + run["budget"])
                    lines.append(f"(run {res['rn']} {res['request']} {run_args_sx(run['args'])} {fuel})")
                    slots.append((i, "run", j))
    replies = ctx.driver(DRIVER, lines) if lines else []
    hs_of = {}
    st = {"build_cmp": 0, "outside_model": 0, "run_py_cmp": 0, "run_cfg_cmp": 0, "run_skipped": 0, "hs_disagree": 0,
          "hs": {"safe": 0, "chain": 0, "sibling": 0}}
    for (i, kind, j), line, rep in zip(slots, lines, replies):
        res = results[i]
        src = res["source"]
        rep = rep.strip()
        if kind == "build":
            if rep == "bad-op" or rep.startswith("bad"):
                ctx.broke(f"harness/driver protocol: driver rejected request `{line[:300]}` ({rep[:80]})")
                continue
            if rep == "err unsupported":
                st["outside_model"] += 1
                ctx.bump("outside-model")
                if "unsupported" not in res["pyflags"]:
                    ctx.broke(f"correspondence Model/Builder.lean vs harness: model answers `err unsupported` for a program the "
                              f"Python predicate considers inside the model:\n{src}")
                continue
            st["build_cmp"] += 1
            if rep.startswith("ok "):
                parts = rep.split(" ", 2)
                hs, body = parts[1], norm_sx(renumber(parts[2])) if len(parts) > 2 else ""
                if hs in st["hs"]:
                    hs_of[i] = hs
                    st["hs"][hs] += 1
                    if hs != res["pyhs"]:
                        st["hs_disagree"] += 1
                        ctx.broke(f"hoist-safety: Lean says {hs}, Python predicate says {res['pyhs']} for\n{src}")
                real = ("ok", res["canon"]) if res["status"] == "ok" else (res["status"], None)
                if real != ("ok", body):
                    ctx.broke("correspondence Model/Builder.lean vs cfg/builder.py: " + _first_diff(real, body) + f" source:\n{src}")
            else:
                if norm_sx(rep) != res["status"]:
                    real = res["status"] if res["status"] != "ok" else "ok " + str(res["canon"])[:400]
                    ctx.broke(f"correspondence Model/Builder.lean vs cfg/builder.py: model={rep[:200]} real={real} source:\n{src}")
        else:
            run = res["runs"][j]
            sp = _split_run_reply(rep)
            if sp is None:
                ctx.broke(f"harness/driver protocol: cannot parse run reply `{rep[:200]}` for `{line[:200]}`")
                continue
            inp = ",".join(f"{k}={v}" for k, v in run["args"].items())
            a = _cmp_run(sp[0], run["py"])
            b = _cmp_run(sp[1], run["cfg"])
            if a is None:
                st["run_skipped"] += 1
            else:
                st["run_py_cmp"] += 1
                if not a:
                    ctx.broke(f"correspondence Model/Surface.lean vs CPython on {inp}: model={sp[0][:300]} "
                              f"python={run['py'].show()[:300]} source:\n{src}")
            if b is None:
                st["run_skipped"] += 1
            else:
                st["run_cfg_cmp"] += 1
                if not b:
                    ctx.broke(f"correspondence Model/Builder.lean CFG semantics vs interpretation of the real CFG on {inp}: "
                              f"model={sp[1][:300]} real={run['cfg'].show()[:300]} source:\n{src}")
    return hs_of, st


def _first_diff(real, model_body: str) -> str:
    status, canon = real
    if status != "ok":
        return f"real={status} model=ok {model_body[:300]}"
    if canon is None or canon.startswith("uncanonical"):
        return f"real CFG cannot be expressed in the protocol ({canon}); model={model_body[:300]}"
    ra, mb = canon.split("(bb "), model_body.split("(bb ")
    if len(ra) != len(mb):
        return f"real has {len(ra) - 1} blocks, model has {len(mb) - 1}; real={canon[:500]} model={model_body[:500]}"
    for x, y in zip(ra, mb):
        if x != y:
            return f"first differing block: real=(bb {x[:300]} model=(bb {y[:300]}"
    return "equal?"


# ============================================================================ the tie


def load_corpus(profile):
    out = []
    d = os.path.join(vlib.VERIF, "corpus", profile.corpus)
    if os.path.isdir(d):
        for fn in sorted(os.listdir(d)):
            if fn.endswith(".json"):
                for c in json.load(open(os.path.join(d, fn))):
                    out.append(("corpus:" + fn, c["source"], int(c["rn"]), c["inputs"]))
    return out


def tie(ctx, profile=Profile):
    rng = ctx.rng
    cases = load_corpus(profile)
    rp = (ctx.replay_in or {}).get("replay") or {}
    if "source" in rp:
        cases.append(("replay", rp["source"], int(rp.get("rn", 0)), rp.get("inputs") or [list(rp["args"].values())]))
    for k in range(ctx.n(profile.n_quick, profile.n_thorough)):
        src, rn = gen_program(rng, profile.gen)
        cases.append((f"gen{k}", src, rn, gen_inputs(rng)))

    t0 = time.time()
    results = []
    disagree = {"safe": 0, "chain": 0, "sibling": 0}
    statuses: dict[str, int] = {}
    for name, src, rn, inputs in cases:
        res = eval_real(src, rn, inputs, profile)
        res["name"] = name
        results.append(res)
        statuses[res["status"]] = statuses.get(res["status"], 0) + 1
        if res["harness_error"]:
            ctx.broke("harness: " + res["harness_error"] + "\n" + src)
        kind = shape_tag(res["feat"], res["unreachable"])
        if res["status"] != "ok":
            kind = res["status"].replace(" ", "-")
        nt = profile.nontrivial(res["feat"])
        if res["runs"]:
            for run in res["runs"]:
                ctx.count({"source": src, "rn": rn, "args": run["args"]}, nt and run["py"].kind == "res", kind)
        else:
            ctx.count({"source": src, "rn": rn, "args": None}, False, kind)
    ctx.extra["real_side_s"] = round(time.time() - t0, 2)

    hs_of, st = model_phase(ctx, results, profile)

    for i, res in enumerate(results):
        hs = hs_of.get(i, res["pyhs"])  # authority: the Lean verdict; Python predicate when the model abstains
        n = report_oracle(ctx, res, hs, profile)
        if n:
            disagree[hs] += 1
    ctx.extra["programs"] = len(results)
    ctx.extra["real_build_status"] = statuses
    ctx.extra["oracle_disagreeing_programs_by_hs"] = disagree
    ctx.extra["model_comparisons"] = st
    ctx.extra["python_vs_lean_hs_disagreements"] = st["hs_disagree"]
    ctx.extra["outside_model_fraction"] = round(st["outside_model"] / max(1, len(results)), 4)
    ctx.extra["cpython_timeouts"] = sum(1 for r in results for run in r["runs"] if run["py"].kind == "nofuel")


# ============================================================================ search + shrink


def _fails(src, rn, inputs, profile):
    """hoist-safe (Python predicate) program on which the real CFG disagrees with CPython -> failing run or None"""
    try:
        if hs_source(src) != "safe":
            return None
        res = eval_real(src, rn, inputs, profile)
    except Exception:  # noqa: BLE001
        return None
    if res["facts"]:
        return res, None
    for run in res["runs"]:
        if run["agree"] is False:
            return res, run
    return None


class _Shrink(ast.NodeTransformer):
    """apply the k-th applicable simplification"""

    def __init__(self, k):
        self.k = k
        self.done = False

    def _hit(self):
        if self.done:
            return False
        self.k -= 1
        if self.k < 0:
            self.done = True
            return True
        return False

    def _body(self, stmts):
        out = []
        for s in stmts:
            if isinstance(s, ast.stmt) and not isinstance(s, ast.Pass) and self._hit():
                continue  # drop the statement
            if isinstance(s, ast.If) and self._hit():
                out.extend(s.body)
                continue
            if isinstance(s, ast.If) and s.orelse and self._hit():
                out.extend(s.orelse)
                continue
            if isinstance(s, (ast.While, ast.For)) and self._hit():
                out.extend(x for x in s.body if not isinstance(x, (ast.Break, ast.Continue)))
                continue
            out.append(self.visit(s))
        return out or [ast.Pass()]

    def generic_visit(self, node):
        for f in ("body", "orelse"):
            v = getattr(node, f, None)
            if isinstance(v, list) and isinstance(node, (ast.FunctionDef, ast.If, ast.While, ast.For)):
                new = self._body(v)
                setattr(node, f, new if (f == "body" or v) else [])
        for f, v in ast.iter_fields(node):
            if f in ("body", "orelse") and isinstance(v, list):
                continue
            if isinstance(v, ast.expr) and f not in ("target", "func"):
                setattr(node, f, self.expr(v))
            elif isinstance(v, list):
                setattr(node, f, [self.expr(x) if isinstance(x, ast.expr) and f != "targets" else x for x in v])
        return node

    def expr(self, e):
        if isinstance(e, (ast.Name, ast.Constant)) or isinstance(e.ctx if hasattr(e, "ctx") else None, ast.Store):
            return e
        kids = [c for c in ast.iter_child_nodes(e) if isinstance(c, ast.expr)
                and not (isinstance(e, ast.Call) and c is e.func) and not (isinstance(e, ast.NamedExpr) and c is e.target)]
        for c in kids:
            if self._hit():
                return c
        for v in (0, 1, True, False):
            if self._hit():
                return ast.Constant(v)
        for f, v in ast.iter_fields(e):
            if isinstance(v, ast.expr) and f not in ("func", "target"):
                setattr(e, f, self.expr(v))
            elif isinstance(v, list):
                setattr(e, f, [self.expr(x) if isinstance(x, ast.expr) else x for x in v])
        return e


def shrink(src, rn, inputs, profile=Profile, rounds=400):
    """greedy: drop statements / unwrap control / replace sub-expressions while the failure persists"""
    best = (src, rn, inputs)
    k, tried = 0, 0
    while tried < rounds:
        tried += 1
        tree = ast.parse(best[0])
        sh = _Shrink(k)
        sh.visit(tree.body[0])
        if not sh.done:
            break
        try:
            cand = ast.unparse(ast.fix_missing_locations(tree)) + "\n"
            compile(cand, "<shrink>", "exec")
            surface_request(cand)
        except Exception:  # noqa: BLE001
            k += 1
            continue
        if cand != best[0] and len(cand) <= len(best[0]) and _fails(cand, rn, inputs, profile):
            best = (cand, rn, inputs)
            k = 0
        else:
            k += 1
    for inp in best[2]:
        if _fails(best[0], rn, [inp], profile):
            return best[0], rn, [inp]
    return best


def search(ctx, why, profile=Profile):
    """something broke: look for a hoist-safe program on which the REAL builder disagrees with CPython"""
    rng = ctx.rng
    found = 0
    tried = 0
    for k in range(ctx.n(4000, 40000)):
        src, rn = gen_program(rng, profile.gen, small=(k % 4 != 0), unsafe=False)
        inputs = gen_inputs(rng, 3)
        tried += 1
        hit = _fails(src, rn, inputs, profile)
        if not hit:
            continue
        try:
            s2, rn2, in2 = shrink(src, rn, inputs, profile)
        except Exception:  # noqa: BLE001  (never lose a found failure to a shrinker problem)
            s2, rn2, in2 = src, rn, inputs
        res = eval_real(s2, rn2, in2, profile)
        if report_oracle(ctx, res, "safe", profile) or res["facts"]:
            found += 1
        if found >= 3:
            break
    ctx.extra["search"] = {"why": [w[:200] for w in why][:3], "programs_tried": tried, "failing_inputs_found": found}


# ============================================================================ development helper (no Lean)


class _FakeCtx:
    def __init__(self, seed=0, quick=True):
        import random

        self.rng = random.Random(seed)
        self.quick = quick
        self.extra, self.dist, self.viol, self.broken, self.evaluations = {}, {}, [], [], 0
        self.nontrivial = set()
        self.replay_in = None

    def n(self, q, t):
        return q if self.quick else t

    def count(self, case, nontrivial, kind=None):
        self.evaluations += 1
        self.dist[kind] = self.dist.get(kind, 0) + 1
        if nontrivial:
            self.nontrivial.add(json.dumps(case, sort_keys=True, default=str))

    def bump(self, kind, n=1):
        self.dist[kind] = self.dist.get(kind, 0) + n

    def violation(self, key, what, replay, found_input=True):
        self.viol.append((key, what, replay))

    def broke(self, name):
        self.broken.append(name)


def run_real_only(n=400, seed=0, profile=Profile, verbose=False):
    """generate n programs, run the real side and the oracle only (hoist-safety from the Python predicate)"""
    ctx = _FakeCtx(seed)
    out = {"programs": 0, "disagree": {"safe": [], "chain": [], "sibling": []}, "status": {}, "facts": []}
    t0 = time.time()
    cases = load_corpus(profile) + [("gen", *gen_program(ctx.rng, profile.gen), None) for _ in range(n)]
    for name, src, rn, inputs in cases:
        inputs = inputs or gen_inputs(ctx.rng)
        res = eval_real(src, rn, inputs, profile)
        out["programs"] += 1
        out["status"][res["status"]] = out["status"].get(res["status"], 0) + 1
        kind = shape_tag(res["feat"], res["unreachable"]) if res["status"] == "ok" else res["status"]
        for run in res["runs"] or [None]:
            ctx.count({"s": src, "rn": rn, "a": run and run["args"]}, profile.nontrivial(res["feat"]), kind)
        if res["facts"]:
            out["facts"].append((src, res["facts"]))
        for run in res["runs"]:
            if run["agree"] is False:
                out["disagree"][res["pyhs"]].append((src, run["args"], run["py"].show(), run["cfg"].show()))
                break
    out["dist"], out["evaluations"], out["nontrivial"] = ctx.dist, ctx.evaluations, len(ctx.nontrivial)
    out["wall_s"] = round(time.time() - t0, 2)
    return out


if __name__ == "__main__":
    vlib.main(sys.modules[__name__])
