"""C03 — Classical control and data flow behave as in Python.

Three things per case (program, argument values):

  real    the CFG the real `CFGBuilder` of /repo builds for the generated source (cfg/builder.py driven directly on
          the annotated function body), (a) canonicalised to the S-expression form of the line protocol and (b)
          *interpreted* by a small evaluator that `exec`s the real block statements and follows `branch_pred` /
          `successors`;
  model   Lean driver C03: `build` (Model/Builder.lean) diffed against (a); `run` = the model's Python big-step
          semantics (diffed against CPython) and the model's CFG semantics on the CFG it builds (diffed against (b));
  oracle  CPython running the same source text with instrumented external functions: (return value, call trace).

`real (b) != oracle` is a failing input of the property (ctx.violation, key `input:<source>|<arguments>`), for EVERY
program: defect D9 (lifted sub-expressions hoisted before side-effecting left siblings; middle operand of a chained
comparison evaluated twice) was repaired in /repo by commits f9e33c1 and 7c8aeda, so there is no hoist-safe fragment
and no known-finding routing any more.  The formerly D9-shaped programs are still generated on purpose (~20% of the
programs, `Gen(d9=True)`): they are the regression inputs of the two repairs.  `real != model` -> ctx.broke; this
includes a model `err unsupported` (every program of the protocol is inside the model).

Functions useful from a scratch script (after `import bootstrap; bootstrap.install()`):
  gen_program(rng, profile)            -> (source, rn)
  eval_real(source, rn, inputs)        -> dict: everything that does not need the Lean driver
  real_build(source, rn)               -> (status, cfg|None);  canon_cfg(cfg) -> protocol string
  CfgProg(cfg).run(args, budget)       -> Outcome;   PyProg(source).run(args, ticks) -> Outcome
  surface_request(source)              -> S-expression statement list of the protocol
  d9_shapes(source)                    -> subset of {'chain','sibling'}: shape tags only (which repair the program exercises)
  run_real_only(n, seed, profile)      -> summary dict (no Lean at all)
  gen_order_program(rng)               -> typed multi-function source for the order-edge phase (C05)
  order_eval(source)                   -> per track_hugr_side_effects context: recorded links, oracle failures, model request
  tie_hugr_exec(ctx, pid)              -> end-to-end phase (c03_hugr.py): lowered HUGR interpreted vs CPython on the same source;
                                          scratch: /venv/bin/python harness/props/c03_hugr.py --n 500 --seed 1 [--pid C05]
"""
from __future__ import annotations

import ast
import json
import os
import re
import sys
import time

sys.path.insert(0, os.path.dirname(os.path.dirname(os.path.abspath(__file__))))
import vlib

PID = "C03"
THEOREM_MODULES = ["GuppyVerif.Props.C03"]
DRIVER = "C03"
RULE = (
    "case = (generated program `def main(x, y, z)`, returns_none flag, argument store). Programs: type-directed random "
    "structured programs over int parameters x,y,z and int/bool locals: nested if/elif/else, while (counter loops, "
    "`while True` + break, external-call conditions, constant conditions), for over range, break/continue, early and "
    "bare returns, statements after return/break/continue (unreachable code), constant conditions, expression "
    "statements, augmented assignments; expressions with external calls (0-2 args; besides f,g,h,k / c,p,q also externals NAMED "
    "like builtins: abs, round, int, len, bool, float, divmod, nat, pow -- a builder that treats such calls specially by name reorders "
    "them in the call trace), conditional expressions, and/or "
    "(2-3 operands), not, chained comparisons, walrus, negative literals. ~20% of the programs are deliberately shaped like "
    "the former defect D9 (repaired by /repo commits f9e33c1, 7c8aeda (extended by 7121677: earlier operands that read mutable state or use operators are stored as well, 6f37109: the old value of `xs[i] op= <right-hand side with control flow>` is loaded before the right-hand side, and 2bb14bb: a stored operand takes the effectful operands to its left with it)): a lifted sub-expression (conditional expression, "
    "and/or, walrus, chained comparison) right of a side-effecting or re-assigned sibling in binary operators, comparisons, "
    "call arguments and augmented assignments (`g() + (h() if c() else k())`, `x + (x := 5)`, `x += (x := e)`, "
    "`f(g(), (y := h(x)))`, lifted operands inside both operands), and chained comparisons whose middle operand is a call, "
    "conditional expression, and/or, walrus, negated or doubly negated literal or is re-assigned by the right operand "
    "(`f() < g() < h()`, `x < (x := y) < 3`, `x < y < (y := 5)`); the other programs avoid these shapes. Each program is run on 3 argument stores (zero, negative and small positive values). Per case: real "
    "CFGBuilder output interpreted by exec'ing the real block statements vs CPython running the source (value + call "
    "trace); real CFG structure vs Lean `build`; Lean `run` (py / cfg) vs CPython / real-CFG interpretation; structural "
    "facts on the real CFG. non-trivial = the program has a branch, loop or lifted expression and at least one external "
    "call; distinct by (source, rn, arguments). End-to-end phase (tie_hugr_exec, c03_hugr.py): typed multi-function programs "
    "(reporting helpers; int / bool / float / struct / tuple / array parameters; struct and tuple values whose different leaves stay "
    "alive on different branches, tuple unpacking and swaps, array unpacking with a starred target in any position, `for v in xs`, "
    "subscript reads / writes, the f9e33c1 / 7c8aeda / 9df9073 expression shapes; operands whose evaluation is observable without "
    "being a plain user call, left of / inside lifted operands, as chain middles, call arguments, augmented right-hand sides and "
    "subscript indices: (a) operands that can panic (int(x) on inf / nan / 1e30, nat(k) with k < 0, // and % by zero, out-of-range "
    "subscripts), (b) reporting user functions named round / abs / len / pow / divmod, (c) reads of arrays, nested arrays and "
    "array-holding structs that a later borrowing call mutates (`xs[0] + (poke(xs) if c else 0)`, `xs[ys[0]] += poke(ys)`); "
    "corpus/c03/hugr_exec.json first) are checked and "
    "lowered by the real compiler, the lowered HUGR is interpreted under two schedules per dataflow region and compared with CPython "
    "running the same source (a CPython ZeroDivisionError / IndexError / OverflowError / ValueError / negative nat is the expected "
    "PANIC: the HUGR run must panic after exactly the same results); case = (function, argument tuple, schedule), non-trivial = "
    "executed, has a branch or loop and reports at least one result"
)
ASSUMPTIONS = [
    "the real CFG is given meaning by exec'ing the real block statements (ast nodes as left by the builder) in CPython and "
    "following branch_pred / successors[1 if pred else 0]; MakeIter/IterNext of the for-template are interpreted as "
    "iter()/next() with an Option-like result; lowering of blocks to HUGR and HUGR execution are not covered by this tie (they "
    "are sampled by the end-to-end phase)",
    "end-to-end phase: the meaning of a lowered HUGR is given by the interpreter of c03_hugr.py (CFG / DataflowBlock / Conditional / "
    "TailLoop / Call / sums and tuples / 64-bit int, float and tket.bool arithmetic / borrow_array / tket.result), any topological "
    "order of value and order edges being a legal execution of a dataflow region (two are tried); CPython runs in which an arithmetic "
    "result leaves +-2^62 or which exceed the step budget are skipped; panics are compared by the results reported before them, not by "
    "message; an op that panics internally (idiv / imod by zero, is_to_u, borrow out of range) carries no order edge, so under the "
    "adversarial schedule its panic may come before earlier or after later results of the same region: that difference is counted "
    "(`panic_overtakes`), not reported, while the first-ready schedule must agree exactly (notes/INTERP.md)",
    "external functions f,g,h,k (int) and c,p,q (bool) are deterministic functions of (name, arguments, number of calls so far); "
    "they record every call, so both value flow and call order are observable",
    "integers are unbounded on all sides (the 64-bit reduction of the statement is a property of the arithmetic lowering, C13/C16)",
    "the Lean models Model/Surface.lean and Model/Builder.lean are hand-written; agreement with CPython and cfg/builder.py is "
    "established by the same-input correspondence run here",
    "termination-insensitive: inputs on which CPython exceeds the loop budget are skipped",
]
UNMODELLED = [
    "type checking (programs are fed to CFGBuilder directly; the generator is type-directed so that programs are plausible)",
    "tuples, structs, arrays, floats, nested functions, comprehensions, with-blocks, comptime expressions",
    "chained comparisons with more than 3 operands, calls with more than 2 arguments (not generated; every generated program "
    "is inside the model: a model `err unsupported` is reported as a broken correspondence)",
    "subscript / attribute assignment targets in the Lean model (the target-operand ordering of visit_Assign/AugAssign is covered by "
    "oracle-only corpus programs interpreted on the real CFG against CPython, and by typed probes through check() + lowering)",
    "compile_bb / block wiring (row_agreement, return_vars_order of compiler/cfg_compiler.py) and HUGR execution in the Lean model "
    "of the builder (wiring has its own model; statement / expression lowering is only sampled end to end: tie_hugr_exec runs the "
    "lowered HUGR of generated typed programs against CPython, ops outside its interpreter are counted as unsupported)",
    "64-bit wrap-around (values are unbounded ints); the iterator protocol is executed with the semantics of range (C18)",
]
MANIFEST = {
    "level_text": "Lean theorems (all programs of the fragment x all argument stores x all environments of external functions, no "
    "size or iteration bound) over a hand-written model of cfg/builder.py (CFGBuilder statements incl. if/while/the for template/"
    "break/continue/return/unreachable tails, ExprBuilder lifting of IfExp, and/or, chained comparison, walrus into temporaries, "
    "build_operands (earlier operands stored in temporaries before a lifted operand is built), BranchBuilder incl. the chained "
    "comparison that keeps its middle operand in a temporary, constant conditions with dummy edges, update_reachable, implicit "
    "return, pruning): for EVERY program of the modelled fragment (no hoist-safety hypothesis: defect D9 was repaired in /repo by "
    "commits f9e33c1 and 7c8aeda, extended by 7121677 (operands that read mutable state or use operators) 6f37109 (old value of `xs[i] op= <lifted rhs>`) and 2bb14bb (a stored operand takes the effectful operands to its left with it), and the model follows the repaired builder) the built CFG, executed block by block (successor 1 on a true predicate), halts in the exit block with the same return value, "
    "the same trace of external calls and the same user-variable values as Python's big-step semantics of the source "
    "(by induction on the big-step derivation; termination-insensitive); every block has at most two "
    "successors and two only with a branch predicate; inside the body of a self-recursive non-capturing nested function its name resolves "
    "to the nested function whatever the module namespace defines under that name (nested_recursion_resolves_to_itself, model of "
    "Globals.__getitem__ / check_nested_func_def tied by tie_scope on the real Globals objects); every non-entry block has a predecessor over a real or dummy edge "
    "(nonentry_block_has_pred); break/continue target the innermost loop; after pruning no real edge leads "
    "from unreachable into reachable code and dummy edges only reach unreachable blocks; the reachable flags are exactly graph "
    "reachability from the entry; block wiring of compiler/cfg_compiler.py (compile_bb / sort_vars / choose_vars_for_tuple_sum / "
    "insert_return_vars): along every edge the ordered places a block delivers equal the ordered places the successor binds "
    "(row_agreement_jump / _branch, return_vars_order; no two same-typed variables can be swapped). The model is tied to /repo on every run: "
    "the real CFGBuilder is driven on generated programs, its output is diffed block by block (statements, branch_pred, ordered "
    "successors, dummy successors, reachability, errors) against the model's, the real CFG is interpreted and compared with CPython "
    "running the same source, and the model's two semantics are compared with CPython and with the real-CFG interpretation; "
    "typed programs are lowered by the real compiler and compile_bb's actual input/output place order is recovered and compared "
    "with the wiring model and, edge by edge, with the successor's inputs; end to end (sampling, no theorem): generated typed "
    "programs are checked and lowered by the real compiler and the lowered HUGR, interpreted under two schedules, must return the "
    "same value and report the same result sequence as CPython running the same source.",
    "level_note": "Trusted: Lean kernel + propext/Classical.choice/Quot.sound; the reading of a CFG (exec of block statements, "
    "successors[1] on a true predicate); correspondence is sampling. D9 (lifted sub-expressions hoisted before left siblings, "
    "middle operand of a chained comparison evaluated twice) is fixed in /repo (f9e33c1, 7c8aeda; 7121677, 6f37109 and 2bb14bb for operands that read mutable state / use operators, the old value of `xs[i] op= <lifted rhs>` and operands left of a stored operand); its witnesses are regression "
    "inputs (corpus/c03/d9_fixed.json) and any real-vs-CPython disagreement is a VIOLATION keyed by the input.",
    "technique": "Lean 4 proof over a hand-written builder model + differential correspondence (structure and semantics) with "
    "cfg/builder.py and CPython",
    "design_ref": "DESIGN.md §5 C03",
    "ready": True,
}

PARAMS = ("x", "y", "z")
FNAME = "main"  # `f` is an external function
# external functions of the untyped CFG-level programs.  A name whose first letter is c, p or q is bool-valued (the Lean
# driver's protoEnv decides by the first character), every other name is int-valued.  Besides f,g,h,k / c,p,q there are
# externals NAMED like Python builtins: a builder that treats calls of `int`, `len`, `abs`, ... specially BY NAME (e.g. as
# pure, seed C05/m3) reorders them against other calls, which shows in the call trace.  They are ordinary instrumented
# externals here (defined in the exec environment on the CPython side and in the real-CFG interpreter).
BUILTIN_LIKE_INT = ("abs", "round", "int", "len", "bool", "float", "divmod", "nat")
BUILTIN_LIKE_BOOL = ("pow",)
INT_EXT = ("f", "g", "h", "k") * 3 + BUILTIN_LIKE_INT
BOOL_EXT = ("c", "p", "q") * 4 + BUILTIN_LIKE_BOOL
PY_TICKS = 120
MODEL_FUEL = 3000  # cap; per run: 200 + the step budget given to the real-CFG interpreter


# ============================================================================ profile (C05 overrides this)


class Profile:
    pid = "C03"
    corpus = "c03"
    gen = "c03"
    n_quick, n_thorough = 400, 15000
    what = "return value or call trace"

    @staticmethod
    def project(o):
        """the part of an outcome the property's oracle compares"""
        return o

    @staticmethod
    def nontrivial(feat):
        return bool(feat["shape"]) and feat["ncalls"] >= 1


# ============================================================================ S-expressions

_BIN = {ast.Add: "+", ast.Sub: "-", ast.Mult: "*"}
_CMP = {ast.Lt: "<", ast.LtE: "<=", ast.Gt: ">", ast.GtE: ">=", ast.Eq: "==", ast.NotEq: "!="}
_PRIM_ATTR = {"is_some": "issome", "unwrap_nothing": "unwrapnothing", "unwrap": "unwrap"}


class OutsideProtocol(Exception):
    """an ast node the line protocol cannot express (harness or generator bug, or a mutated builder)"""


def sx_var(name: str) -> str:
    if name.startswith("%tmp"):
        return f"(t {name[4:]})"
    return f"(n {name})"


def sx_expr(e) -> str:
    """ast expression (surface, or residual after building) -> protocol S-expression"""
    tn = type(e).__name__
    if tn == "MakeIter":
        return f"(prim makeiter {sx_expr(e.value)})"
    if tn == "IterNext":
        return f"(prim iternext {sx_expr(e.value)})"
    if isinstance(e, ast.Name):
        return sx_var(e.id)
    if isinstance(e, ast.Constant):
        if isinstance(e.value, bool):
            return f"(b {int(e.value)})"
        if isinstance(e.value, int):
            return f"(i {e.value})"
        raise OutsideProtocol(f"constant {e.value!r}")
    if isinstance(e, ast.UnaryOp):
        if isinstance(e.op, ast.USub):
            return f"(neg {sx_expr(e.operand)})"
        if isinstance(e.op, ast.Not):
            return f"(not {sx_expr(e.operand)})"
        raise OutsideProtocol(ast.dump(e.op))
    if isinstance(e, ast.BinOp):
        if type(e.op) not in _BIN:
            raise OutsideProtocol(ast.dump(e.op))
        return f"(bin {_BIN[type(e.op)]} {sx_expr(e.left)} {sx_expr(e.right)})"
    if isinstance(e, ast.BoolOp):
        tag = "and" if isinstance(e.op, ast.And) else "or"
        vals = [sx_expr(v) for v in e.values]
        acc = vals[-1]
        for v in reversed(vals[:-1]):
            acc = f"({tag} {v} {acc})"
        return acc
    if isinstance(e, ast.Compare):
        ops = [_CMP.get(type(o)) for o in e.ops]
        if None in ops:
            raise OutsideProtocol("comparison operator")
        if len(ops) == 1:
            return f"(cmp {ops[0]} {sx_expr(e.left)} {sx_expr(e.comparators[0])})"
        if len(ops) == 2:
            return (f"(cmp2 {ops[0]} {ops[1]} {sx_expr(e.left)} {sx_expr(e.comparators[0])} "
                    f"{sx_expr(e.comparators[1])})")
        raise OutsideProtocol("chained comparison with more than 3 operands")
    if isinstance(e, ast.IfExp):
        return f"(if {sx_expr(e.test)} {sx_expr(e.body)} {sx_expr(e.orelse)})"
    if isinstance(e, ast.NamedExpr):
        return f"(walrus {sx_var(e.target.id)} {sx_expr(e.value)})"
    if isinstance(e, ast.Call):
        if e.keywords:
            raise OutsideProtocol("keyword arguments")
        if isinstance(e.func, ast.Attribute) and e.func.attr in _PRIM_ATTR and not e.args:
            return f"(prim {_PRIM_ATTR[e.func.attr]} {sx_expr(e.func.value)})"
        if isinstance(e.func, ast.Name):
            if e.func.id == "range" and len(e.args) == 1:
                return f"(prim range {sx_expr(e.args[0])})"
            if len(e.args) <= 2:
                return "(" + " ".join([f"call{len(e.args)}", e.func.id, *map(sx_expr, e.args)]) + ")"
        raise OutsideProtocol("call shape")
    raise OutsideProtocol(tn)


def sx_block_stmt(s) -> str:
    """statement found in a basic block after building"""
    if isinstance(s, ast.Assign):
        if len(s.targets) != 1:
            raise OutsideProtocol("multiple assignment targets")
        t = s.targets[0]
        if isinstance(t, ast.Name):
            return f"(assign {sx_var(t.id)} {sx_expr(s.value)})"
        if isinstance(t, ast.Tuple) and len(t.elts) == 2 and all(isinstance(x, ast.Name) for x in t.elts):
            return f"(assign2 {sx_var(t.elts[0].id)} {sx_var(t.elts[1].id)} {sx_expr(s.value)})"
        raise OutsideProtocol("assignment target")
    if isinstance(s, ast.AugAssign):
        if not isinstance(s.target, ast.Name) or type(s.op) not in _BIN:
            raise OutsideProtocol("augmented assignment")
        return f"(aug {sx_var(s.target.id)} {_BIN[type(s.op)]} {sx_expr(s.value)})"
    if isinstance(s, ast.Expr):
        return f"(expr {sx_expr(s.value)})"
    if isinstance(s, ast.Return):
        return "(ret0)" if s.value is None else f"(ret {sx_expr(s.value)})"
    raise OutsideProtocol(type(s).__name__)


def sx_surface_stmts(body) -> str:
    return "(" + " ".join(sx_surface_stmt(s) for s in body) + ")"


def sx_surface_stmt(s) -> str:
    if isinstance(s, (ast.Assign, ast.AugAssign, ast.Expr, ast.Return)):
        if isinstance(s, ast.Assign) and not (len(s.targets) == 1 and isinstance(s.targets[0], ast.Name)):
            raise OutsideProtocol("surface assignment target")
        return sx_block_stmt(s)
    if isinstance(s, ast.Pass):
        return "(pass)"
    if isinstance(s, ast.Break):
        return "(break)"
    if isinstance(s, ast.Continue):
        return "(continue)"
    if isinstance(s, ast.If):
        return f"(ite {sx_expr(s.test)} {sx_surface_stmts(s.body)} {sx_surface_stmts(s.orelse)})"
    if isinstance(s, ast.While):
        if s.orelse:
            raise OutsideProtocol("while-else")
        return f"(while {sx_expr(s.test)} {sx_surface_stmts(s.body)})"
    if isinstance(s, ast.For):
        if s.orelse or not isinstance(s.target, ast.Name):
            raise OutsideProtocol("for shape")
        return f"(for {sx_var(s.target.id)} {sx_expr(s.iter)} {sx_surface_stmts(s.body)})"
    raise OutsideProtocol(type(s).__name__)


def surface_request(source: str) -> str:
    """the statement list `(s*)` of the protocol for the body of `def main(x, y, z): ...`"""
    return sx_surface_stmts(ast.parse(source).body[0].body)


_T = re.compile(r"\(t (\d+)\)")


def renumber(s: str) -> str:
    """rename temporaries `(t k)` to 0,1,2,... in ascending order of k (PROTOCOL.md)"""
    ks = sorted({int(k) for k in _T.findall(s)})
    m = {k: i for i, k in enumerate(ks)}
    return _T.sub(lambda mo: f"(t {m[int(mo.group(1))]})", s)


def norm_sx(s: str) -> str:
    s = re.sub(r"\s+", " ", s.strip())
    return s.replace("( ", "(").replace(" )", ")")


# ============================================================================ the real builder


def real_build(source: str, rn: int):
    """Drive the real CFGBuilder. -> (status, cfg): status 'ok' | 'err expected-return' | 'err internal' | 'exception:X'"""
    from guppylang_internals.ast_util import annotate_location
    from guppylang_internals.cfg.builder import CFGBuilder
    from guppylang_internals.checker.core import Globals
    from guppylang_internals.checker.errors.generic import ExpectedError
    from guppylang_internals.error import GuppyError, InternalGuppyError

    fn = ast.parse(source).body[0]
    try:
        annotate_location(fn, source, "<gen>", 0)
        cfg = CFGBuilder().build(fn.body, bool(rn), Globals(None))
        return "ok", cfg
    except InternalGuppyError:
        return "err internal", None
    except GuppyError as e:
        if isinstance(getattr(e, "error", None), ExpectedError):
            return "err expected-return", None
        return "exception:GuppyError:" + type(getattr(e, "error", None)).__name__, None
    except RecursionError:
        return "exception:RecursionError", None
    except Exception as e:  # noqa: BLE001
        return "exception:" + type(e).__name__, None


def canon_cfg(cfg) -> str:
    """real CFG -> `(cfg (bb 0 R (stmts ...) (pred ...) (succ ...) (dsucc ...)) ...)`, temporaries renumbered"""
    out = []
    for pos, bb in enumerate(cfg.bbs):
        if bb.idx != pos:
            raise OutsideProtocol(f"block at position {pos} has idx {bb.idx}")
        stmts = " ".join(sx_block_stmt(s) for s in bb.statements)
        pred = "none" if bb.branch_pred is None else sx_expr(bb.branch_pred)
        succ = " ".join(str(s.idx) for s in bb.successors)
        dsucc = " ".join(str(s.idx) for s in bb.dummy_successors)
        out.append(f"(bb {pos} {'R' if bb.reachable else 'U'} (stmts {stmts}) (pred {pred}) (succ {succ}) (dsucc {dsucc}))")
    return norm_sx(renumber("(cfg " + " ".join(out) + ")"))


def struct_facts(cfg) -> list[str]:
    """names of the structural facts (theorems on the Lean side) that FAIL on this real CFG"""
    bad = []
    bbs = cfg.bbs
    if any(len(b.successors) == 2 and b.branch_pred is None for b in bbs):
        bad.append("two-successors-have-branch-pred")
    if any(len(b.successors) > 2 for b in bbs):
        bad.append("at-most-two-successors")
    if any((not b.reachable) and s.reachable for b in bbs for s in b.successors):
        bad.append("no-edge-from-unreachable-into-reachable")
    if any(s.reachable for b in bbs for s in b.dummy_successors):
        bad.append("dummy-edges-only-into-unreachable")
    seen, todo = set(), [cfg.entry_bb]
    while todo:
        b = todo.pop()
        if id(b) in seen:
            continue
        seen.add(id(b))
        todo.extend(b.successors)
    if any(b.reachable != (id(b) in seen) for b in bbs):
        bad.append("reachable-flag-is-graph-reachability")
    if any(b.reachable and not b.successors and b is not cfg.exit_bb for b in bbs):
        bad.append("reachable-nonexit-has-successor")
    if any(b is not cfg.entry_bb and not b.predecessors and not b.dummy_predecessors for b in bbs):
        bad.append("every-block-has-a-real-or-dummy-predecessor")
    if any(p not in s.dummy_predecessors for p in bbs for s in p.dummy_successors) or any(
        s not in p.dummy_successors for s in bbs for p in s.dummy_predecessors
    ):
        bad.append("dummy-predecessor-lists-mirror-dummy-successor-lists")
    if cfg.exit_bb.successors or cfg.exit_bb.statements:
        bad.append("exit-is-empty-sink")
    if any(p not in s.predecessors for p in bbs for s in p.successors) or any(
        s not in p.successors for s in bbs for p in s.predecessors
    ):
        bad.append("predecessor-lists-mirror-successor-lists")
    return bad


# ============================================================================ values, outcomes, externals


class Outcome:
    """kind: 'res' (value, trace) | 'nofuel' | 'err' (error class, trace so far) | 'malformed' (reason)"""

    __slots__ = ("kind", "value", "trace", "ticks")

    def __init__(self, kind, value=None, trace=(), ticks=0):
        self.kind, self.value, self.trace, self.ticks = kind, value, list(trace), ticks

    def show(self) -> str:
        if self.kind == "res":
            return f"(res {fmt_val(self.value)} {fmt_trace(self.trace)})"
        if self.kind == "nofuel":
            return "nofuel"
        return f"{self.kind} {self.value} {fmt_trace(self.trace)}"

    def key(self):
        return (self.kind, fmt_val(self.value) if self.kind == "res" else str(self.value), fmt_trace(self.trace))


def fmt_val(v) -> str:
    if v is None:
        return "none"
    if isinstance(v, bool):
        return f"b:{int(v)}"
    if isinstance(v, int):
        return f"i:{v}"
    return "other:" + type(v).__name__


def fmt_trace(tr) -> str:
    evs = " ".join("(" + f + " (" + " ".join(fmt_val(a) for a in args) + ") " + fmt_val(r) + ")" for f, args, r in tr)
    return norm_sx(f"(trace {evs})")


def ext_result(name: str, args, k: int):
    r = 17 * k + 31 * sum(int(a) for a in args) + 7 * ord(name[0])
    if name[0] in "cpq":
        return r % 3 == 0
    return (r % 11) - 5


def make_externals(trace: list) -> dict:
    def mk(name):
        def ext(*args):
            res = ext_result(name, args, len(trace))
            trace.append((name, tuple(args), res))
            return res

        ext.__name__ = name
        return ext

    return {n: mk(n) for n in sorted(set(INT_EXT + BOOL_EXT))}


class _Timeout(Exception):
    pass


def _err_class(e: BaseException) -> str:
    return "unbound" if isinstance(e, NameError) else type(e).__name__


# ============================================================================ oracle: CPython on the source text


class _Ticker(ast.NodeTransformer):
    def _loop(self, node):
        self.generic_visit(node)
        tick = ast.Expr(ast.Call(ast.Name("__tick", ast.Load()), [], []))
        node.body = [tick, *node.body]
        return node

    visit_While = _loop
    visit_For = _loop


class PyProg:
    """the generated source compiled by CPython (loop bodies instrumented with a tick in a COPY of the tree)"""

    def __init__(self, source: str):
        self.error = None
        try:
            tree = ast.parse(source)
            self.fname = tree.body[0].name
            tree = ast.fix_missing_locations(_Ticker().visit(tree))
            self.code = compile(tree, "<gen>", "exec")
        except SyntaxError as e:  # e.g. break outside loop
            self.code = None
            self.error = e.msg

    def run(self, args: dict, ticks: int = PY_TICKS) -> Outcome:
        trace: list = []
        env = make_externals(trace)
        n = [0]

        def tick():
            n[0] += 1
            if n[0] > ticks:
                raise _Timeout

        env["__tick"] = tick
        exec(self.code, env)
        try:
            v = env[self.fname](**args)
        except _Timeout:
            return Outcome("nofuel", ticks=n[0])
        except Exception as e:  # noqa: BLE001
            return Outcome("err", _err_class(e), trace, n[0])
        return Outcome("res", v, trace, n[0])


# ============================================================================ interpreter for the REAL CFG


class _Opt:
    def __init__(self, it):
        self.it = it
        try:
            self.v = next(it)
            self.some = True
        except StopIteration:
            self.some = False

    def is_some(self):
        return self.some

    def unwrap(self):
        if not self.some:
            raise ValueError("unwrap of nothing")
        return (self.v, self.it)

    def unwrap_nothing(self):
        if self.some:
            raise ValueError("unwrap_nothing of some")
        return None


def _pyname(x: str) -> str:
    return "_tmp" + x[4:] if x.startswith("%tmp") else x


def _clean(node, store=False):
    """rebuild a plain, compilable ast from a (possibly custom / annotated) real ast node; expression contexts are
    recomputed from the position (the builder leaves Store names in load positions and `ctx=ast.Load` classes)"""
    if isinstance(node, list):
        return [_clean(x, store) for x in node]
    if not isinstance(node, ast.AST):
        return node
    tn = type(node).__name__
    if tn == "MakeIter":
        return ast.Call(ast.Name("__mkiter", ast.Load()), [_clean(node.value)], [])
    if tn == "IterNext":
        return ast.Call(ast.Name("__iternext", ast.Load()), [_clean(node.value)], [])
    if type(node).__module__ not in ("ast", "_ast"):
        raise OutsideProtocol("cannot execute node " + tn)
    ctx = ast.Store() if store else ast.Load()
    if isinstance(node, ast.Name):
        return ast.Name(_pyname(node.id), ctx)
    if isinstance(node, ast.Tuple):
        return ast.Tuple([_clean(x, store) for x in node.elts], ctx)
    if isinstance(node, ast.Assign):
        return ast.Assign(_clean(node.targets, True), _clean(node.value))
    if isinstance(node, ast.AugAssign):
        return ast.AugAssign(_clean(node.target, True), type(node.op)(), _clean(node.value))
    if isinstance(node, ast.NamedExpr):
        return ast.NamedExpr(_clean(node.target, True), _clean(node.value))
    if isinstance(node, ast.Attribute):
        return ast.Attribute(_clean(node.value), node.attr, ctx)
    if isinstance(node, ast.Subscript):  # oracle-only corpus programs (subscript assignment targets)
        return ast.Subscript(_clean(node.value), _clean(node.slice), ctx)
    if isinstance(node, ast.List):
        return ast.List([_clean(x, store) for x in node.elts], ctx)
    if isinstance(node, ast.Return):
        v = ast.Constant(None) if node.value is None else _clean(node.value)
        return ast.Assign([ast.Tuple([ast.Name("__ret", ast.Store()), ast.Name("__returned", ast.Store())], ast.Store())],
                          ast.Tuple([v, ast.Constant(True)], ast.Load()))
    if isinstance(node, (ast.expr_context,)):
        return ast.Load()
    return type(node)(**{f: _clean(getattr(node, f, None)) for f in node._fields})


class CfgProg:
    """the real CFG, with every block compiled from the real statement nodes"""

    def __init__(self, cfg):
        self.n = len(cfg.bbs)
        self.entry = cfg.entry_bb.idx
        self.exit = cfg.exit_bb.idx
        self.code, self.pred, self.succ = [], [], []
        for bb in cfg.bbs:
            body = [_clean(s) for s in bb.statements]
            self.code.append(
                compile(ast.fix_missing_locations(ast.Module(body, [])), f"<bb{bb.idx}>", "exec") if body else None
            )
            self.pred.append(
                None if bb.branch_pred is None
                else compile(ast.fix_missing_locations(ast.Expression(_clean(bb.branch_pred))), f"<pred{bb.idx}>", "eval")
            )
            self.succ.append([s.idx for s in bb.successors])

    def run(self, args: dict, budget: int) -> Outcome:
        trace: list = []
        env = make_externals(trace)
        env["__mkiter"] = iter
        env["__iternext"] = _Opt
        env["__ret"] = None
        env["__returned"] = False
        env.update(args)
        cur, steps = self.entry, 0
        try:
            while True:
                if self.code[cur] is not None:
                    exec(self.code[cur], env)
                succ = self.succ[cur]
                if cur == self.exit:
                    if succ:
                        return Outcome("malformed", "exit-has-successors", trace)
                    return Outcome("res", env["__ret"], trace)
                if env["__returned"] and succ != [self.exit]:
                    return Outcome("malformed", f"return-block-{cur}-does-not-lead-to-exit", trace)
                if len(succ) == 1:
                    cur = succ[0]
                elif len(succ) == 2:
                    if self.pred[cur] is None:
                        return Outcome("malformed", f"block-{cur}-two-successors-no-pred", trace)
                    cur = succ[1] if eval(self.pred[cur], env) else succ[0]
                elif not succ:
                    return Outcome("malformed", f"block-{cur}-dead-end", trace)
                else:
                    return Outcome("malformed", f"block-{cur}-has-{len(succ)}-successors", trace)
                steps += 1
                if steps > budget:
                    return Outcome("nofuel")
        except Exception as e:  # noqa: BLE001
            return Outcome("err", _err_class(e), trace)


# ============================================================================ D9 shape tags (NOT a hypothesis of anything)
#
# Until /repo commits f9e33c1 / 7c8aeda the builder miscompiled two classes of expressions (defect D9) and the theorems were
# restricted to the complement (`hoist-safe`).  The classes are kept here only as SHAPE TAGS: the generator uses them to put
# the shapes the two repairs handle into ~20% of the programs (and to keep them out of the others, so that the share is
# controlled), and the evidence reports how many such programs were evaluated.  No verdict depends on them.


def _is_chain(e):
    return isinstance(e, ast.Compare) and len(e.comparators) > 1


def _is_lifted(e):
    return isinstance(e, (ast.IfExp, ast.BoolOp, ast.NamedExpr)) or _is_chain(e)


def _lifts(e):
    return any(_is_lifted(n) for n in ast.walk(e))


def _kids(e):
    if isinstance(e, ast.Call):
        return list(e.args)
    return [c for c in ast.iter_child_nodes(e) if isinstance(c, ast.expr)]


def _res_calls(e):
    """a call is left in the residual of `e` after lifting"""
    if _is_lifted(e):
        return False
    if isinstance(e, ast.Call):
        return True
    return any(_res_calls(c) for c in _kids(e))


def _res_reads(e):
    if isinstance(e, ast.NamedExpr):
        return {e.target.id}
    if _is_lifted(e):
        return set()
    if isinstance(e, ast.Name):
        return {e.id}
    out = set()
    for c in _kids(e):
        out |= _res_reads(c)
    return out


def _writes(e):
    return {n.target.id for n in ast.walk(e) if isinstance(n, ast.NamedExpr)}


def _has_call(e):
    return any(isinstance(n, ast.Call) for n in ast.walk(e))


def _sib(ops):
    """operands evaluated left to right: a lifting operand right of an operand whose residual calls / reads what it assigns
    (the situation in which ExprBuilder.build_operands stores the earlier operand in a temporary)"""
    for j, cj in enumerate(ops):
        if _lifts(cj):
            w = _writes(cj)
            for ci in ops[:j]:
                if (_res_calls(ci) and _has_call(cj)) or (_res_reads(ci) & w):
                    return {"sibling"}
    return set()


def d9_expr_shapes(e) -> set:
    """subset of {'chain','sibling'}: which of the two repaired situations occur in `e`"""
    if isinstance(e, (ast.Name, ast.Constant)):
        return set()
    out = set()
    if isinstance(e, ast.NamedExpr):
        return d9_expr_shapes(e.value)
    if _is_chain(e):
        ops = [e.left, *e.comparators]
        for o in ops:
            out |= d9_expr_shapes(o)
        for a, b in zip(ops, ops[1:]):
            out |= _sib([a, b])
        for m in ops[1:-1]:
            # the middle operand has an effect, is lifted itself, or is folded in place (-(-5)): formerly evaluated/visited twice
            if _has_call(m) or _lifts(m) or _double_neg_literal(m):
                out.add("chain")
        return out
    kids = _kids(e)
    for k in kids:
        out |= d9_expr_shapes(k)
    if not isinstance(e, (ast.IfExp, ast.BoolOp)):
        out |= _sib(kids)
    return out


def _double_neg_literal(m):
    for n in ast.walk(m):
        if (isinstance(n, ast.UnaryOp) and isinstance(n.op, ast.USub) and isinstance(n.operand, ast.UnaryOp)
                and isinstance(n.operand.op, ast.USub) and isinstance(n.operand.operand, ast.Constant)):
            return True
    return False


def d9_stmt_shapes(s) -> set:
    out = set()
    for n in ast.walk(s):
        if isinstance(n, ast.AugAssign):
            out |= d9_expr_shapes(n.value) | _sib([n.target, n.value])
        elif isinstance(n, (ast.Assign, ast.Expr)):
            out |= d9_expr_shapes(n.value)
        elif isinstance(n, ast.Return) and n.value is not None:
            out |= d9_expr_shapes(n.value)
        elif isinstance(n, (ast.If, ast.While)):
            out |= d9_expr_shapes(n.test)
        elif isinstance(n, ast.For):
            out |= d9_expr_shapes(n.iter)
    return out


def d9_shapes(source: str) -> set:
    return d9_stmt_shapes(ast.parse(source).body[0])


# ============================================================================ features / shape tag


def features(source: str) -> dict:
    fn = ast.parse(source).body[0]
    f = set()
    ncalls = 0
    for n in ast.walk(fn):
        if isinstance(n, ast.If):
            f.add("if")
        elif isinstance(n, ast.While):
            f.add("while")
        elif isinstance(n, ast.For):
            f.add("for")
        elif isinstance(n, ast.IfExp):
            f.add("ifexp")
        elif isinstance(n, ast.BoolOp):
            f.add("boolop")
        elif isinstance(n, ast.NamedExpr):
            f.add("walrus")
        elif _is_chain(n):
            f.add("chain")
        elif isinstance(n, (ast.Break, ast.Continue)):
            f.add("jump")
        elif isinstance(n, ast.Call) and isinstance(n.func, ast.Name) and n.func.id != "range":
            ncalls += 1
        if isinstance(n, (ast.If, ast.While, ast.IfExp)):
            t = n.test
            while isinstance(t, ast.UnaryOp) and isinstance(t.op, ast.Not):
                t = t.operand
            if isinstance(t, ast.Constant) and isinstance(t.value, bool):
                f.add("const-cond")
    ctrl = next((k for k in ("for", "while", "if") if k in f), None)
    lift = next((k for k in ("chain", "walrus", "ifexp", "boolop") if k in f), None)
    return {"set": f, "ncalls": ncalls, "shape": [k for k in (ctrl, lift) if k], "d9": sorted(d9_stmt_shapes(fn))}


def shape_tag(feat: dict, unreachable: bool) -> str:
    parts = list(feat["shape"]) or ["straight"]
    if unreachable:
        parts.append("unreach")
    elif "const-cond" in feat["set"]:
        parts.append("const-cond")
    return "+".join(parts)


# ============================================================================ generator (type-directed, builds ast nodes)


def _name(x, store=False):
    return ast.Name(x, ast.Store() if store else ast.Load())


def _const(v):
    return ast.Constant(v)


def _call(f, args):
    return ast.Call(_name(f), list(args), [])


class Gen:
    INT_LOCALS = ("a", "e")
    BOOL_LOCALS = ("b", "d")
    COUNTERS = ("n", "m")
    LOOPVARS = ("i", "j")

    def __init__(self, rng, profile="c03", small=False, d9=None):
        """d9: True = put the shapes repaired by f9e33c1 / 7c8aeda (former defect D9) into the program, False = avoid them,
        None = True with probability 0.24 (about 20% of the programs end up with such a shape)"""
        self.r = rng
        self.profile = profile
        self.d9 = (rng.random() < 0.24) if d9 is None else d9
        self.rn = 1 if rng.random() < (0.3 if profile == "c03" else 0.2) else 0
        self.ret_bool = rng.random() < 0.35
        if profile == "c05":
            self.budget = rng.randint(1, 4) if small else rng.randint(2, 7)
            self.maxd = rng.choice([0, 1, 1, 2])
            self.ed = 2 if small else rng.choice([2, 3, 3, 4])
        else:
            self.budget = rng.randint(2, 5) if small else rng.randint(3, 12)
            self.maxd = 2 if small else rng.choice([1, 2, 3, 3, 4])
            self.ed = rng.choice([1, 2, 2]) if small else rng.choice([1, 2, 2, 3])
        self.loopdepth = 0

    # ---------------------------------------------------------------- expressions
    def pick(self, table):
        tot = sum(w for _, w in table)
        x = self.r.random() * tot
        for k, w in table:
            x -= w
            if x < 0:
                return k
        return table[-1][0]

    def int_vars(self, env):
        return [v for v in (*PARAMS, *self.INT_LOCALS, *self.LOOPVARS, *self.COUNTERS) if v in env]

    def int_atom(self, env):
        r = self.r.random()
        if r < 0.6:
            return _name(self.r.choice(self.int_vars(env)))
        if r < 0.88:
            return _const(self.r.randint(0, 5))
        return ast.UnaryOp(ast.USub(), _const(self.r.randint(1, 5)))

    def int_call(self, d, env):
        k = self.r.choice([0, 1, 1, 2])
        return _call(self.r.choice(INT_EXT), [self.int_expr(d - 1, env) for _ in range(k)])

    def bool_call(self, d, env):
        k = self.r.choice([0, 0, 1, 2])
        return _call(self.r.choice(BOOL_EXT), [self.int_expr(d - 1, env) for _ in range(k)])

    def walrus_targets(self, env, boolean):
        pool = self.BOOL_LOCALS if boolean else (*PARAMS, *self.INT_LOCALS)
        return [v for v in pool if v in env]

    def int_expr(self, d, env):
        if d <= 0 or self.r.random() < 0.25:
            return self.int_atom(env)
        c5 = self.profile == "c05"
        k = self.pick([("bin", 4), ("mul", 1), ("neg", 0.7), ("call", 5 if c5 else 3), ("ifexp", 1.6), ("walrus", 0.9)])
        if k == "bin":
            return ast.BinOp(self.int_expr(d - 1, env), self.r.choice([ast.Add, ast.Sub])(), self.int_expr(d - 1, env))
        if k == "mul":
            c, e = _const(self.r.randint(0, 3)), self.int_expr(d - 1, env)
            return ast.BinOp(c, ast.Mult(), e) if self.r.random() < 0.5 else ast.BinOp(e, ast.Mult(), c)
        if k == "neg":
            return ast.UnaryOp(ast.USub(), self.int_expr(d - 1, env))
        if k == "call":
            return self.int_call(d, env)
        if k == "ifexp":
            return ast.IfExp(self.bool_expr(d - 1, env), self.int_expr(d - 1, env), self.int_expr(d - 1, env))
        ts = self.walrus_targets(env, False)
        if not ts:
            return self.int_atom(env)
        return ast.NamedExpr(_name(self.r.choice(ts), True), self.int_expr(d - 1, env))

    def cmp_op(self):
        return self.r.choice([ast.Lt, ast.LtE, ast.Gt, ast.GtE, ast.Eq, ast.NotEq])()

    def chain_middle(self, d, env):
        """middle operand of a chained comparison.  d9 programs: anything visit_Compare has to keep in a temporary (call,
        conditional expression, and/or, walrus, arithmetic with a call) or that is folded while it is built (-5, -(-5))"""
        r = self.r.random()
        if self.d9 and r < 0.6:
            return self.lifted_middle(min(d, 1), env)
        if r < 0.7:
            return self.int_atom(env)
        if r < 0.75:
            return ast.UnaryOp(ast.USub(), _const(self.r.randint(1, 5)))
        return ast.BinOp(self.int_atom(env), self.r.choice([ast.Add, ast.Sub])(), self.int_atom(env))

    def lifted_middle(self, d, env):
        r = self.r
        g = lambda: self.int_call(d, env)  # noqa: E731
        ts = self.walrus_targets(env, False)
        k = self.pick([("call", 4), ("ifexp", 1.5), ("ifexp-call", 1), ("boolop", 0.8), ("walrus", 1.2 if ts else 0),
                       ("walrus-call", 1 if ts else 0), ("negneg", 0.6), ("arith-call", 1.2), ("neg-call", 0.4)])
        if k == "call":
            return g()
        if k == "ifexp":
            return ast.IfExp(self.bool_expr(0, env), self.int_atom(env), self.int_atom(env))
        if k == "ifexp-call":
            return ast.IfExp(self.bool_call(1, env), g(), self.int_atom(env))
        if k == "boolop":  # a bool between two ints: Python compares it as 0/1
            return ast.BoolOp(r.choice([ast.And, ast.Or])(), [self.bool_expr(0, env), self.bool_expr(0, env)])
        if k == "walrus":
            return ast.NamedExpr(_name(r.choice(ts), True), self.int_atom(env))
        if k == "walrus-call":
            return ast.NamedExpr(_name(r.choice(ts), True), g())
        if k == "negneg":
            return ast.UnaryOp(ast.USub(), ast.UnaryOp(ast.USub(), _const(r.randint(1, 5))))
        if k == "arith-call":
            return ast.BinOp(g(), r.choice([ast.Add, ast.Sub])(), self.int_atom(env))
        return ast.UnaryOp(ast.USub(), g())

    def bool_expr(self, d, env):
        bvs = [v for v in self.BOOL_LOCALS if v in env]
        if d <= 0 or self.r.random() < 0.2:
            r = self.r.random()
            if bvs and r < 0.3:
                return _name(self.r.choice(bvs))
            if r < 0.45:
                return _call(self.r.choice(BOOL_EXT), [])
            if r < 0.5:
                return _const(self.r.random() < 0.5)
            return ast.Compare(self.int_atom(env), [self.cmp_op()], [self.int_atom(env)])
        c5 = self.profile == "c05"
        k = self.pick([("cmp", 4), ("chain", 1.6 if c5 else 1.2), ("boolop", 3), ("not", 1), ("call", 4 if c5 else 2.5),
                       ("ifexp", 0.8), ("walrus", 0.4 if bvs else 0), ("notint", 0.3)])
        if k == "cmp":
            return ast.Compare(self.int_expr(d - 1, env), [self.cmp_op()], [self.int_expr(d - 1, env)])
        if k == "chain":
            return ast.Compare(self.int_expr(d - 1, env), [self.cmp_op(), self.cmp_op()],
                               [self.chain_middle(d - 1, env), self.int_expr(d - 1, env)])
        if k == "boolop":
            n = 2 if self.r.random() < 0.7 else 3
            return ast.BoolOp(self.r.choice([ast.And, ast.Or])(), [self.bool_expr(d - 1, env) for _ in range(n)])
        if k == "not":
            return ast.UnaryOp(ast.Not(), self.bool_expr(d - 1, env))
        if k == "call":
            return self.bool_call(d, env)
        if k == "ifexp":
            return ast.IfExp(self.bool_expr(d - 1, env), self.bool_expr(d - 1, env), self.bool_expr(d - 1, env))
        if k == "walrus":
            return ast.NamedExpr(_name(self.r.choice(bvs), True), self.bool_expr(d - 1, env))
        return ast.UnaryOp(ast.Not(), _name(self.r.choice(self.int_vars(env))))

    def d9_lifted(self, env, v):
        """an int operand that emits statements / blocks when it is built"""
        r = self.r
        g = lambda: self.int_call(1, env)  # noqa: E731
        return r.choice([
            lambda: ast.IfExp(self.bool_call(1, env), g(), g()),
            lambda: ast.NamedExpr(_name(v, True), g()),
            lambda: ast.NamedExpr(_name(v, True), _const(r.randint(0, 5))),
            lambda: ast.NamedExpr(_name(v, True), ast.BinOp(_name(v), ast.Add(), g())),
            lambda: ast.IfExp(ast.BoolOp(r.choice([ast.And, ast.Or])(), [self.bool_call(1, env), self.bool_call(1, env)]),
                              self.int_atom(env), self.int_atom(env)),
            lambda: ast.IfExp(ast.Compare(self.int_atom(env), [self.cmp_op(), self.cmp_op()], [g(), self.int_atom(env)]),
                              g(), self.int_atom(env)),
        ])()

    def d9_chain(self, env, v):
        """chained comparisons the repaired visit_Compare handles"""
        r = self.r
        g = lambda: self.int_call(1, env)  # noqa: E731
        w = r.choice([p for p in PARAMS if p != v])
        k = self.pick([("mid", 5), ("all-calls", 2), ("mid-assigned-later", 1.5), ("mid-walrus-of-left", 1.5), ("left-call", 1.5),
                       ("right-lifted", 1)])
        ops = [self.cmp_op(), self.cmp_op()]
        if k == "mid":  # a < MID < b with every kind of middle operand
            return ast.Compare(self.int_atom(env), ops, [self.lifted_middle(1, env), self.int_atom(env)])
        if k == "all-calls":  # f() < g() < h(): f, g, h
            return ast.Compare(g(), ops, [g(), g()])
        if k == "mid-assigned-later":  # x < y < (y := 5): the second comparison uses the old y
            return ast.Compare(self.int_atom(env), ops, [_name(v), ast.NamedExpr(_name(v, True), self.int_expr(1, env))])
        if k == "mid-walrus-of-left":  # x < (x := y) < 3: the first comparison uses the old x
            return ast.Compare(_name(v), ops, [ast.NamedExpr(_name(v, True), r.choice([_name(w), g()])), self.int_atom(env)])
        if k == "left-call":  # g() < (h() if c() else k()) < b: left operand stored before the middle is built
            return ast.Compare(g(), ops, [self.lifted_middle(1, env), self.int_atom(env)])
        return ast.Compare(self.int_atom(env), ops, [g(), self.d9_lifted(env, v)])

    def d9_expr(self, env, boolean):
        """shapes of the former defect D9 (regression inputs of /repo commits f9e33c1 and 7c8aeda)"""
        r = self.r
        v = r.choice([p for p in PARAMS])
        g = lambda: self.int_call(1, env)  # noqa: E731
        lifted = self.d9_lifted(env, v)
        q = r.random()
        if q < 0.55:
            left = g()
        elif q < 0.8:
            left = _name(v)
        elif q < 0.9:  # a lifted operand inside the left operand as well
            left = ast.BinOp(g(), r.choice([ast.Add, ast.Sub])(), self.d9_lifted(env, r.choice(PARAMS)))
        else:
            left = ast.BinOp(_name(v), ast.Add(), g())
        if boolean:
            k = r.random()
            if k < 0.55:
                return self.d9_chain(env, v)
            if k < 0.8:
                return ast.Compare(left, [self.cmp_op()], [lifted])
            return _call(r.choice(BOOL_EXT), [left, lifted])
        k = r.random()
        if k < 0.6:
            return ast.BinOp(left, r.choice([ast.Add, ast.Sub])(), lifted)
        if k < 0.85:
            return _call(r.choice(INT_EXT), [left, lifted])
        if k < 0.93:  # three operands: the first two are stored when the third lifts
            return ast.BinOp(ast.BinOp(left, ast.Add(), g()), r.choice([ast.Add, ast.Sub])(), lifted)
        return ast.BinOp(_const(r.randint(1, 3)), ast.Mult(), ast.BinOp(left, ast.Sub(), lifted))

    def expr(self, env, boolean, d=None, pre=()):
        """expression of the wanted type; free of the D9 shapes unless the program is a d9 program.
        `pre`: implicit left siblings (the target of an augmented assignment)"""
        d = self.ed if d is None else d
        if self.d9 and self.r.random() < 0.4:
            return self.d9_expr(env, boolean)
        for _ in range(8):
            e = self.bool_expr(d, env) if boolean else self.int_expr(d, env)
            if self.d9:
                return e
            if d9_expr_shapes(e) | (_sib([*pre, e]) if pre else set()):
                continue
            if self.profile == "c05" and _ < 3 and not _has_call(e):
                continue  # C05: prefer expressions that perform calls
            return e
        return self.bool_expr(0, env) if boolean else self.int_atom(env)

    def cond(self, env):
        r = self.r.random()
        if r < 0.07:
            return _const(self.r.random() < 0.5)
        if r < 0.09:
            return ast.UnaryOp(ast.Not(), _const(self.r.random() < 0.5))
        if r < 0.13:
            return _name(self.r.choice(self.int_vars(env)))
        return self.expr(env, True)

    # ---------------------------------------------------------------- statements
    def simple(self, env):
        """one non-control statement; updates env"""
        r = self.r
        k = self.pick([("assign", 5), ("aug", 2), ("expr", 2.5 if self.profile == "c03" else 4), ("pass", 0.4)])
        if k == "assign":
            if r.random() < 0.3:
                t = r.choice(self.BOOL_LOCALS)
                s = ast.Assign([_name(t, True)], self.expr(env, True))
            else:
                t = r.choice([*PARAMS, *self.INT_LOCALS, *[v for v in self.LOOPVARS if v in env]])
                s = ast.Assign([_name(t, True)], self.expr(env, False))
            env.add(t)
            return s
        if k == "aug":
            t = r.choice([v for v in (*PARAMS, *self.INT_LOCALS) if v in env])
            if r.random() < 0.15:
                return ast.AugAssign(_name(t, True), ast.Mult(), _const(r.randint(0, 3)))
            if self.d9 and r.random() < 0.3:  # x += (x := e) / x -= g() + (x := e): Python reads the old x first
                w = ast.NamedExpr(_name(t, True), self.int_expr(1, env))
                rhs = w if r.random() < 0.6 else ast.BinOp(self.int_call(1, env), r.choice([ast.Add, ast.Sub])(), w)
                return ast.AugAssign(_name(t, True), r.choice([ast.Add, ast.Sub])(), rhs)
            return ast.AugAssign(_name(t, True), r.choice([ast.Add, ast.Sub])(), self.expr(env, False, pre=[_name(t)]))
        if k == "expr":
            q = r.random()
            if q < 0.5:
                e = self.int_call(self.ed, env) if r.random() < 0.5 else self.bool_call(self.ed, env)
                if not self.d9 and d9_expr_shapes(e):
                    e = _call(r.choice(INT_EXT), [self.int_atom(env)])
                return ast.Expr(e)
            return ast.Expr(self.expr(env, q < 0.8))  # incl. bare IfExp / BoolOp statements
        return ast.Pass()

    def ret(self, env):
        if self.rn:
            return ast.Return(None)
        return ast.Return(self.expr(env, self.ret_bool))

    def block(self, d, env, loop, lo=1, hi=3):
        out = []
        for _ in range(self.r.randint(lo, hi)):
            if self.budget <= 0:
                break
            stmts, jumped = self.stmt(d, env, loop)
            out += stmts
            if jumped:
                if self.r.random() < 0.25:  # unreachable tail
                    for _ in range(self.r.randint(1, 2)):
                        out.append(self.simple(set(env)) if self.r.random() < 0.8 else self.ret(env))
                return out, True
        if not out:
            out = [ast.Pass()]
        return out, False

    def stmt(self, d, env, loop):
        """-> (list of statements, ends-in-jump)"""
        r = self.r
        self.budget -= 1
        ctrl = d > 0
        c3 = self.profile == "c03"
        k = self.pick([("simple", 6 if c3 else 8), ("if", 4 if ctrl else 0), ("while", (2.2 if c3 else 0.8) if ctrl else 0),
                       ("for", (1.8 if c3 else 0.6) if ctrl else 0), ("jump", 1.2 if loop else 0),
                       ("return", 0.5 if d < self.maxd else 0.15), ("stray", 0.012 if not loop else 0)])
        if k == "simple":
            return [self.simple(env)], False
        if k == "return":
            return [self.ret(env)], True
        if k == "jump":
            return [ast.Break() if r.random() < 0.5 else ast.Continue()], True
        if k == "stray":  # break/continue outside a loop: InternalGuppyError in the real builder
            return [ast.Break() if r.random() < 0.5 else ast.Continue()], True
        if k == "if":
            return self.gen_if(d, env, loop)
        if k == "while":
            return self.gen_while(d, env), False
        return self.gen_for(d, env), False

    def gen_if(self, d, env, loop, elif_depth=0):
        r = self.r
        test = self.cond(env)
        e1, e2 = set(env), set(env)
        body, j1 = self.block(d - 1, e1, loop)
        q = r.random()
        if q < 0.35:
            orelse, j2 = [], False
        elif q < 0.55 and elif_depth < 2 and self.budget > 0:
            self.budget -= 1
            s, j2 = self.gen_if(d, e2, loop, elif_depth + 1)
            orelse = s
        else:
            orelse, j2 = self.block(d - 1, e2, loop)
        new = e2 if j1 else e1 if (j2 and orelse) else (e1 & e2)
        env.clear()
        env.update(new)
        return [ast.If(test, body, orelse)], bool(j1 and j2 and orelse)

    def gen_while(self, d, env):
        r = self.r
        pre = []
        lvl = self.loopdepth
        style = self.pick([("counter", 5 if lvl < 2 else 0), ("truebreak", 2.5), ("ext", 1.5), ("false", 0.5),
                           ("intvar", 0.7 if lvl < 2 else 0)])
        benv = set(env)
        head = []
        use_counter = lvl < 2 and (style in ("counter", "intvar") or (style == "truebreak" and r.random() < 0.65))
        if use_counter:
            n = self.COUNTERS[lvl]
            init = _const(r.randint(0, 3)) if r.random() < 0.75 else ast.BinOp(_name(r.choice(PARAMS)), ast.Sub(), _const(r.randint(0, 2)))
            if style == "intvar":
                init = _const(r.randint(0, 3))
            pre.append(ast.Assign([_name(n, True)], init))
            env.add(n)
            benv.add(n)
            dec = ast.AugAssign(_name(n, True), ast.Sub(), _const(1))
        if style == "counter":
            test = ast.Compare(_name(n), [ast.Gt()], [_const(0)])
            q = r.random()
            if q < 0.2:
                test = ast.BoolOp(ast.And(), [test, self.expr(benv, True, d=1)])
            elif q < 0.3:
                test = ast.UnaryOp(ast.Not(), ast.Compare(_name(n), [ast.LtE()], [_const(0)]))
            elif q < 0.4:
                test = ast.Compare(_const(0), [ast.Lt(), ast.LtE()], [_name(n), _const(r.randint(2, 5))])
            head = [dec]
        elif style == "intvar":
            test = _name(n)
            head = [dec]
        elif style == "truebreak":
            test = _const(True) if r.random() < 0.85 else ast.UnaryOp(ast.Not(), _const(False))
            if use_counter:
                head = [ast.If(ast.Compare(_name(n), [ast.LtE()], [_const(0)]), [ast.Break()], []), dec]
            else:
                head = None  # random break inside the body
        elif style == "ext":
            test = self.bool_call(1, benv) if r.random() < 0.7 else self.expr(benv, True, d=2)
        else:
            test = _const(False)
        self.loopdepth += 1
        body, _ = self.block(d - 1, benv, True)
        self.loopdepth -= 1
        if head is None:
            brk = ast.If(self.expr(set(env), True, d=1), [ast.Break()], [])
            pos = r.randint(0, len(body))
            body = body[:pos] + [brk] + body[pos:]
        else:
            body = head + body
        return pre + [ast.While(test, body, [])]

    def gen_for(self, d, env):
        r = self.r
        v = self.LOOPVARS[min(self.loopdepth, 1)]
        q = r.random()
        if q < 0.45:
            bound = _const(r.randint(0, 3))
        elif q < 0.75:
            bound = _name(r.choice(PARAMS))
        elif q < 0.9:
            bound = ast.BinOp(_name(r.choice(PARAMS)), r.choice([ast.Add, ast.Sub])(), _const(r.randint(0, 2)))
        else:
            bound = self.expr(env, False, d=2)
        benv = set(env) | {v}
        self.loopdepth += 1
        body, _ = self.block(d - 1, benv, True)
        self.loopdepth -= 1
        return [ast.For(_name(v, True), _call("range", [bound]), body, [])]

    # ---------------------------------------------------------------- whole program
    def program(self):
        env = set(PARAMS)
        body, jumped = self.block(self.maxd, env, False, lo=1, hi=max(1, min(6, self.budget)))
        if not jumped:
            if self.rn == 0 and self.r.random() < 0.96:
                body.append(self.ret(env))
                jumped = True
            elif self.rn == 1 and self.r.random() < 0.2:
                body.append(ast.Return(None))
                jumped = True
        if jumped and self.r.random() < 0.1:
            body.append(self.simple(set(env)))
        args = ast.arguments(posonlyargs=[], args=[ast.arg(p) for p in PARAMS], kwonlyargs=[], kw_defaults=[], defaults=[])
        fn = ast.FunctionDef(FNAME, args, body, [], **({"type_params": []} if sys.version_info >= (3, 12) else {}))
        return ast.unparse(ast.fix_missing_locations(ast.Module([fn], []))) + "\n", self.rn


def gen_program(rng, profile="c03", small=False, d9=None):
    """-> (source, rn). The source text is canonical (ast.unparse) and is the identity of the program."""
    for _ in range(20):
        src, rn = Gen(rng, profile, small, d9).program()
        try:
            surface_request(src)
        except OutsideProtocol:
            continue
        return src, rn
    return "def main(x, y, z):\n    return x\n", 0


INPUT_POOL = [(0, 0, 0), (1, 2, 3), (-1, 0, 2), (3, -2, 1), (2, 2, 2), (-3, -1, -2), (5, 1, 0), (0, 4, -1)]


def gen_inputs(rng, k=3):
    out = [rng.choice(INPUT_POOL)]
    while len(out) < k:
        t = tuple(rng.randint(-3, 5) for _ in range(3))
        if t not in out:
            out.append(t)
    return [list(t) for t in out]


# ============================================================================ real + oracle for one program


def eval_real(source: str, rn: int, inputs, profile=Profile, model=True) -> dict:
    """Everything that does not need the Lean driver.  model=False: a program the line protocol cannot express (oracle-only
    corpus entries, e.g. subscript assignment targets): real CFG vs CPython only."""
    res = {"source": source, "rn": rn, "inputs": [list(i) for i in inputs], "runs": [], "facts": [], "canon": None,
           "request": None, "unreachable": False, "harness_error": None}
    res["feat"] = features(source)
    res["d9"] = res["feat"]["d9"]
    if model:
        try:
            res["request"] = surface_request(source)
        except OutsideProtocol as e:
            res["harness_error"] = f"source outside protocol: {e}"
    status, cfg = real_build(source, rn)
    res["status"] = status
    if cfg is None:
        return res
    try:
        res["facts"] = struct_facts(cfg)
        res["unreachable"] = any(not b.reachable for b in cfg.bbs)
    except Exception as e:  # noqa: BLE001
        res["facts"] = ["struct-check-crashed:" + type(e).__name__]
    try:
        res["canon"] = canon_cfg(cfg) if model else None
    except OutsideProtocol as e:
        res["canon"] = "uncanonical: " + str(e)
    py = PyProg(source)
    if py.code is None:
        res["py_error"] = py.error
        return res
    try:
        prog = CfgProg(cfg)
    except Exception as e:  # noqa: BLE001
        prog = None
        res["cfg_compile_error"] = f"{type(e).__name__}: {e}"
    for inp in inputs:
        args = dict(zip(PARAMS, inp))
        o_py = py.run(args)
        run = {"args": args, "py": o_py, "cfg": None, "agree": None, "budget": 0}
        if o_py.kind != "nofuel":
            if prog is None:
                o_cfg = Outcome("malformed", "block-not-executable: " + res["cfg_compile_error"])
            else:
                run["budget"] = 2 * (o_py.ticks + 2) * (prog.n + 2)
                o_cfg = prog.run(args, budget=run["budget"])
            run["cfg"] = o_cfg
            run["agree"] = profile.project(o_cfg.key()) == profile.project(o_py.key())
        res["runs"].append(run)
    return res


def _replay(res, run=None, **extra):
    d = {"source": res["source"], "rn": res["rn"], "inputs": res["inputs"], "d9_shape": res["d9"],
         "real_status": res["status"], "real_cfg": res["canon"]}
    if run is not None:
        d.update(args=run["args"], cpython=run["py"].show(), real_cfg_run=run["cfg"].show() if run["cfg"] else None)
    d.update(extra)
    return d


def report_oracle(ctx, res, profile=Profile):
    """struct facts + real-CFG-vs-CPython disagreements: every one is a failing input of the property, keyed by the input"""
    src = res["source"]
    for fact in res["facts"]:
        ctx.violation(f"struct:{fact}:{src}", f"structural fact `{fact}` fails on the CFG the real builder produces for\n{src}",
                      _replay(res, fact=fact))
    n = 0
    for run in res["runs"]:
        if run["agree"] is False:
            n += 1
            inp = ",".join(f"{k}={v}" for k, v in run["args"].items())
            what = (f"real CFG ({profile.what}) differs from CPython on {inp}: real={run['cfg'].show()[:300]} "
                    f"python={run['py'].show()[:300]} source:\n{src}")
            ctx.violation("input:" + src + "|" + inp, what, _replay(res, run))
    return n


# ============================================================================ model side


def _split_run_reply(s: str):
    """`py OUT cfg OUT` -> (py_out, cfg_out) as normalised strings"""
    s = norm_sx(s)
    m = re.match(r"^py (.*) cfg (\(res .*\)|nofuel|err .*)$", s)
    if not m:
        return None
    return m.group(1), m.group(2)


def _cmp_run(model_out: str, o: Outcome):
    """None = skipped, True/False = compared"""
    if model_out == "nofuel" or o is None or o.kind == "nofuel":
        return None
    if o.kind == "err" and o.value == "unbound":
        return None  # the model's store defaults unbound variables
    if model_out.startswith("err"):
        return o.kind == "err"
    return norm_sx(model_out) == norm_sx(o.show())


def run_args_sx(args: dict) -> str:
    return "(args " + " ".join(f"((n {k}) {fmt_val(v)})" for k, v in args.items()) + ")"


def model_phase(ctx, results, profile=Profile):
    """send build/run requests for all evaluated programs; diff.  The `ok` reply still carries a fragment token (`safe` for
    every program since the model follows the repaired builder); any other token or an `err unsupported` is a broken tie"""
    lines, slots = [], []
    for i, res in enumerate(results):
        if res["request"] is None:
            continue
        lines.append(f"(build {res['rn']} {res['request']})")
        slots.append((i, "build", None))
        if res["status"] == "ok":
            for j, run in enumerate(res["runs"]):
                if run["py"].kind == "res":
                    fuel = min(MODEL_FUEL, 200 + run["budget"])
                    lines.append(f"(run {res['rn']} {res['request']} {run_args_sx(run['args'])} {fuel})")
                    slots.append((i, "run", j))
    replies = ctx.driver(DRIVER, lines) if lines else []
    st = {"build_cmp": 0, "outside_model": 0, "run_py_cmp": 0, "run_cfg_cmp": 0, "run_skipped": 0, "fragment_token": {}}
    for (i, kind, j), line, rep in zip(slots, lines, replies):
        res = results[i]
        src = res["source"]
        rep = rep.strip()
        if kind == "build":
            if rep == "bad-op" or rep.startswith("bad"):
                ctx.broke(f"harness/driver protocol: driver rejected request `{line[:300]}` ({rep[:80]})")
                continue
            if rep == "err unsupported":
                st["outside_model"] += 1
                ctx.bump("outside-model")
                ctx.broke(f"correspondence Model/Builder.lean vs cfg/builder.py: model answers `err unsupported` for a program of "
                          f"the protocol (calls with <= 2 arguments, chains of 3 operands); real={res['status']} source:\n{src}")
                continue
            st["build_cmp"] += 1
            if rep.startswith("ok "):
                parts = rep.split(" ", 2)
                if parts[1].startswith("("):  # no fragment token
                    tok, body = None, norm_sx(renumber(rep[3:]))
                else:
                    tok, body = parts[1], norm_sx(renumber(parts[2])) if len(parts) > 2 else ""
                    st["fragment_token"][tok] = st["fragment_token"].get(tok, 0) + 1
                    if tok != "safe":
                        ctx.broke(f"Model/Builder.lean restricts its correctness claim: driver reports fragment `{tok}` (expected "
                                  f"`safe` for every program since f9e33c1/7c8aeda) for\n{src}")
                real = ("ok", res["canon"]) if res["status"] == "ok" else (res["status"], None)
                if real != ("ok", body):
                    ctx.broke("correspondence Model/Builder.lean vs cfg/builder.py: " + _first_diff(real, body) + f" source:\n{src}")
            else:
                if norm_sx(rep) != res["status"]:
                    real = res["status"] if res["status"] != "ok" else "ok " + str(res["canon"])[:400]
                    ctx.broke(f"correspondence Model/Builder.lean vs cfg/builder.py: model={rep[:200]} real={real} source:\n{src}")
        else:
            run = res["runs"][j]
            sp = _split_run_reply(rep)
            if sp is None:
                ctx.broke(f"harness/driver protocol: cannot parse run reply `{rep[:200]}` for `{line[:200]}`")
                continue
            inp = ",".join(f"{k}={v}" for k, v in run["args"].items())
            if "err unsupported" in (sp[0], sp[1]):
                st["outside_model"] += 1
                ctx.broke(f"correspondence Model/Builder.lean vs cfg/builder.py: model `run` answers `err unsupported` "
                          f"(py={sp[0][:80]} cfg={sp[1][:80]}) for a program of the protocol:\n{src}")
                continue
            a = _cmp_run(sp[0], run["py"])
            b = _cmp_run(sp[1], run["cfg"])
            if a is None:
                st["run_skipped"] += 1
            else:
                st["run_py_cmp"] += 1
                if not a:
                    ctx.broke(f"correspondence Model/Surface.lean vs CPython on {inp}: model={sp[0][:300]} "
                              f"python={run['py'].show()[:300]} source:\n{src}")
            if b is None:
                st["run_skipped"] += 1
            else:
                st["run_cfg_cmp"] += 1
                if not b:
                    ctx.broke(f"correspondence Model/Builder.lean CFG semantics vs interpretation of the real CFG on {inp}: "
                              f"model={sp[1][:300]} real={run['cfg'].show()[:300]} source:\n{src}")
    return st


def _first_diff(real, model_body: str) -> str:
    status, canon = real
    if status != "ok":
        return f"real={status} model=ok {model_body[:300]}"
    if canon is None or canon.startswith("uncanonical"):
        return f"real CFG cannot be expressed in the protocol ({canon}); model={model_body[:300]}"
    ra, mb = canon.split("(bb "), model_body.split("(bb ")
    if len(ra) != len(mb):
        return f"real has {len(ra) - 1} blocks, model has {len(mb) - 1}; real={canon[:500]} model={model_body[:500]}"
    for x, y in zip(ra, mb):
        if x != y:
            return f"first differing block: real=(bb {x[:300]} model=(bb {y[:300]}"
    return "equal?"


# ============================================================================ the tie


def load_corpus(profile):
    out = []
    d = os.path.join(vlib.VERIF, "corpus", profile.corpus)
    if os.path.isdir(d):
        for fn in sorted(os.listdir(d)):
            if fn.endswith(".json"):
                for c in json.load(open(os.path.join(d, fn))):
                    if "rn" not in c:  # wiring.json / target_exprs.json / call_counts.json: typed programs of the T-obj phases
                        continue
                    # "oracle_only": a program outside the line protocol (real CFG vs CPython only, no model request)
                    tag = "corpus-oracle-only:" if c.get("oracle_only") else "corpus:"
                    out.append((tag + fn, c["source"], int(c["rn"]), c["inputs"]))
    return out


def tie(ctx, profile=Profile):
    rng = ctx.rng
    cases = load_corpus(profile)
    rp = (ctx.replay_in or {}).get("replay") or {}
    if "source" in rp:
        cases.append(("replay", rp["source"], int(rp.get("rn", 0)), rp.get("inputs") or [list(rp["args"].values())]))
    for k in range(ctx.n(profile.n_quick, profile.n_thorough)):
        src, rn = gen_program(rng, profile.gen)
        cases.append((f"gen{k}", src, rn, gen_inputs(rng)))

    t0 = time.time()
    results = []
    disagree = {"plain": 0, "chain": 0, "sibling": 0}
    shaped = {"plain": 0, "chain": 0, "sibling": 0}
    statuses: dict[str, int] = {}
    for name, src, rn, inputs in cases:
        res = eval_real(src, rn, inputs, profile, model=not name.startswith("corpus-oracle-only:"))
        res["name"] = name
        results.append(res)
        statuses[res["status"]] = statuses.get(res["status"], 0) + 1
        if res["harness_error"]:
            ctx.broke("harness: " + res["harness_error"] + "\n" + src)
        kind = shape_tag(res["feat"], res["unreachable"])
        if res["status"] != "ok":
            kind = res["status"].replace(" ", "-")
        nt = profile.nontrivial(res["feat"])
        if res["runs"]:
            for run in res["runs"]:
                ctx.count({"source": src, "rn": rn, "args": run["args"]}, nt and run["py"].kind == "res", kind)
        else:
            ctx.count({"source": src, "rn": rn, "args": None}, False, kind)
    ctx.extra["real_side_s"] = round(time.time() - t0, 2)

    st = model_phase(ctx, results, profile)

    for res in results:
        tags = res["d9"] or ["plain"]  # shape tags (former D9 classes); reporting only, every disagreement is a violation
        for t in tags:
            shaped[t] += 1
        if report_oracle(ctx, res, profile):
            for t in tags:
                disagree[t] += 1
    ctx.extra["programs"] = len(results)
    ctx.extra["real_build_status"] = statuses
    ctx.extra["programs_by_d9_shape"] = shaped
    ctx.extra["oracle_disagreeing_programs_by_d9_shape"] = disagree
    ctx.extra["model_comparisons"] = st
    ctx.extra["outside_model_fraction"] = round(st["outside_model"] / max(1, len(results)), 4)
    ctx.extra["cpython_timeouts"] = sum(1 for r in results for run in r["runs"] if run["py"].kind == "nofuel")
    if profile.pid == "C03":
        tie_wiring(ctx)
        tie_probes(ctx)
        tie_scope(ctx)
        tie_hugr_exec(ctx, "C03")


# ============================================================================ wiring (compile_bb): second phase of C03's tie

WIRE_PRELUDE = (
    "from guppylang import guppy\n"
    "from guppylang.std.builtins import *\n"
    "from guppylang.std.quantum import qubit, h, x, cx, measure, discard\n"
)


class WireRecorder:
    """Records what cfg_compiler.compile_bb really does while the real compiler lowers a function.  Nothing in /repo is
    touched: module attributes are wrapped inside this process for the duration of the `with` block and restored after.

    per compiled CFG:  {"cfg": CheckedCFG, "bbs": {bb: events}}   events in program order:
      ("set", place) / ("get", place)   top-level DFContainer.__setitem__ / __getitem__
      ("stmts",)                        StmtCompiler.compile_stmts entered
      ("tuplesum", rows)                choose_vars_for_tuple_sum(output_vars=rows)
      ("setout", k)                     Block.set_block_outputs with k output wires besides the branch port
    """

    def __init__(self):
        self.cfgs = []
        self._cfg_stack, self._bb_stack, self._depth, self._undo = [], [], 0, []

    def _log(self, ev):
        if self._bb_stack:
            self._bb_stack[-1].append(ev)

    def _patch(self, obj, name, new):
        old = getattr(obj, name)
        self._undo.append((obj, name, old))
        setattr(obj, name, new)
        return old

    def __enter__(self):
        import guppylang_internals.compiler.cfg_compiler as cc
        import guppylang_internals.compiler.core as core
        import guppylang_internals.compiler.func_compiler as fc
        import guppylang_internals.compiler.modifier_compiler as mc
        import guppylang_internals.compiler.stmt_compiler as sc
        from hugr.build import cfg as hc

        rec = self
        o_cfg, o_bb, o_choose = cc.compile_cfg, cc.compile_bb, cc.choose_vars_for_tuple_sum
        o_get, o_set = core.DFContainer.__getitem__, core.DFContainer.__setitem__
        o_stmts, o_out = sc.StmtCompiler.compile_stmts, hc.Block.set_block_outputs

        def compile_cfg(cfg, *a, **kw):
            r = {"cfg": cfg, "bbs": {}}
            rec._cfg_stack.append(r)
            try:
                return o_cfg(cfg, *a, **kw)
            finally:
                rec._cfg_stack.pop()
                rec.cfgs.append(r)

        def compile_bb(bb, *a, **kw):
            evs = []
            if rec._cfg_stack:
                rec._cfg_stack[-1]["bbs"][bb] = evs
            rec._bb_stack.append(evs)
            try:
                return o_bb(bb, *a, **kw)
            finally:
                rec._bb_stack.pop()

        def choose(unit_sum, output_vars, dfg):
            rec._log(("tuplesum", [list(r) for r in output_vars]))
            return o_choose(unit_sum=unit_sum, output_vars=output_vars, dfg=dfg)

        def getitem(self, place):
            if rec._depth == 0:
                rec._log(("get", place))
            rec._depth += 1
            try:
                return o_get(self, place)
            finally:
                rec._depth -= 1

        def setitem(self, place, port):
            if rec._depth == 0:
                rec._log(("set", place))
            rec._depth += 1
            try:
                return o_set(self, place, port)
            finally:
                rec._depth -= 1

        def compile_stmts(self, stmts, dfg):
            rec._log(("stmts",))
            return o_stmts(self, stmts, dfg)

        def set_block_outputs(self, branching, *other):
            rec._log(("setout", len(other)))
            return o_out(self, branching, *other)

        self._patch(cc, "compile_cfg", compile_cfg)
        for mod in (fc, mc):
            if getattr(mod, "compile_cfg", None) is o_cfg:
                self._patch(mod, "compile_cfg", compile_cfg)
        self._patch(cc, "compile_bb", compile_bb)
        self._patch(cc, "choose_vars_for_tuple_sum", choose)
        self._patch(core.DFContainer, "__getitem__", getitem)
        self._patch(core.DFContainer, "__setitem__", setitem)
        self._patch(sc.StmtCompiler, "compile_stmts", compile_stmts)
        self._patch(hc.Block, "set_block_outputs", set_block_outputs)
        return self

    def __exit__(self, *exc):
        for obj, name, old in reversed(self._undo):
            setattr(obj, name, old)
        self._undo = []
        return False


def _place(p):
    return (str(p), bool(p.ty.droppable))


def wire_reconstruct(events):
    """events of one compile_bb call -> {"inputs", "outputs", "variants" (None = no TupleSum)} or {"ambiguous": why}"""
    try:
        k_stmts = next(i for i, e in enumerate(events) if e[0] == "stmts")
    except StopIteration:
        return {"ambiguous": "no compile_stmts event"}
    head = events[:k_stmts]
    if any(e[0] != "set" for e in head):
        return {"ambiguous": "non-setitem event before the statements"}
    inputs = [_place(e[1]) for e in head]
    outs = [i for i, e in enumerate(events) if e[0] == "setout"]
    if len(outs) != 1 or outs[0] != len(events) - 1:
        return {"ambiguous": f"{len(outs)} set_block_outputs events / not last"}
    k = events[-1][1]
    tail = events[len(events) - 1 - k:len(events) - 1]
    if len(tail) != k or any(e[0] != "get" for e in tail):
        return {"ambiguous": "output wires are not the last reads"}
    ts = [e for e in events if e[0] == "tuplesum"]
    if len(ts) > 1:
        return {"ambiguous": "several TupleSums"}
    return {"inputs": inputs, "outputs": [_place(e[1]) for e in tail],
            "variants": [[_place(p) for p in row] for row in ts[0][1]] if ts else None}


def wire_lower(source: str):
    """check + lower a typed program with the real compiler, recording compile_bb.
    -> ("ok", [cfg records]) | ("rejected", error class) | ("crash", exception class)"""
    import feed

    try:
        m = feed.load(source, WIRE_PRELUDE)
    except Exception as e:  # noqa: BLE001
        return "rejected", "load:" + type(e).__name__
    try:
        kind, exc = feed.check_outcome(m.main)
        if kind != "ok":
            return ("rejected" if kind == "user" else "crash"), feed.err_class(exc)
        with WireRecorder() as rec:
            try:
                feed.lower(m.main)
            except Exception as e:  # noqa: BLE001
                return "crash", "lower:" + type(e).__name__ + ":" + str(e)[:200]
        return "ok", rec.cfgs
    finally:
        feed.unload(m)


def _sx_places(ps):
    return " ".join(f"(p {n} {int(d)})" for n, d in ps)


def wire_eval(source: str) -> dict:
    """real side + oracle for one typed program: per-bb records, oracle failures, model request lines"""
    from guppylang_internals.compiler.core import is_return_var
    from guppylang_internals.tys.ty import type_to_row

    status, data = wire_lower(source)
    res = {"source": source, "status": status, "detail": None if status == "ok" else data, "bbs": [], "fail": [],
           "ambiguous": 0, "bad_names": False}
    if status != "ok":
        return res
    for ci, r in enumerate(data):
        cfg = r["cfg"]
        exit_bb = cfg.exit_bb
        recs = {}
        for bb in cfg.bbs:
            if bb is exit_bb or bb.is_exit:
                continue
            ev = r["bbs"].get(bb)
            rc = wire_reconstruct(ev) if ev is not None else {"ambiguous": "compile_bb not called"}
            if "ambiguous" in rc:
                res["ambiguous"] += 1
            recs[bb] = rc
        exit_names = [str(p) for p in exit_bb.sig.input_row]
        nret = len(type_to_row(cfg.output_ty))
        tag = f"cfg{ci}:" if len(data) > 1 else ""
        if exit_names[:nret] != [f"%ret{i}" for i in range(nret)] or any(is_return_var(n) for n in exit_names[nret:]):
            res["fail"].append((f"{tag}bb{exit_bb.idx}", f"exit row does not start with the return variables in index order: {exit_names}"))
        for bb in cfg.bbs:
            rc = recs.get(bb)
            if rc is None:
                continue
            sig_in = [_place(p) for p in bb.sig.input_row]
            sig_out = [[_place(p) for p in row] for row in bb.sig.output_rows]
            exits = [int(s is exit_bb) for s in bb.successors]
            names = [n for n, _ in sig_in] + [n for row in sig_out for n, _ in row]
            if any(re.search(r"[\s()]", n) for n in names):
                res["bad_names"] = True
            entry = {"idx": bb.idx, "tag": tag, "is_entry": bb is cfg.entry_bb, "sig_in": sig_in, "sig_out": sig_out,
                     "exits": exits, "succ": [s.idx for s in bb.successors], "rec": rc,
                     "request": f"(wire {int(bb is cfg.entry_bb)} (in {_sx_places(sig_in)}) (outs "
                     + " ".join(f"(row {_sx_places(row)})" for row in sig_out) + ") (exits " + " ".join(map(str, exits)) + "))"}
            res["bbs"].append(entry)
            if "ambiguous" in rc:
                continue
            entry["delivered"] = [
                (rc["variants"][i] if rc["variants"] is not None else []) + rc["outputs"] for i in range(len(bb.successors))
            ]
            if rc["variants"] is not None and len(rc["variants"]) != len(bb.successors):
                res["fail"].append((f"{tag}bb{bb.idx}", f"TupleSum has {len(rc['variants'])} variants for {len(bb.successors)} successors"))
                continue
            for row in [rc["inputs"], *entry["delivered"]]:
                if len({n for n, _ in row}) != len(row):
                    res["fail"].append((f"{tag}bb{bb.idx}", f"a place occurs twice in a row: {row}"))
            for i, succ in enumerate(bb.successors):
                dl = entry["delivered"][i]
                if succ is exit_bb:
                    if [n for n, _ in dl] != exit_names:
                        res["fail"].append((f"{tag}bb{bb.idx}", f"block {bb.idx} delivers {[n for n, _ in dl]} to the exit, "
                                            f"which expects {exit_names} (function outputs in order)"))
                else:
                    want = recs.get(succ)
                    if want is None or "ambiguous" in want:
                        continue
                    if dl != want["inputs"]:
                        res["fail"].append((f"{tag}bb{bb.idx}", f"block {bb.idx} delivers {dl} along branch {i} but successor "
                                            f"block {succ.idx} takes its inputs as {want['inputs']}"))
    return res


# ---------------------------------------------------------------- typed generator


class WGen:
    """typed Guppy programs with many same-typed variables whose liveness differs per branch, linear qubits live across
    branches, early returns of several values, loops with break/continue"""

    INTS = ("zz", "a1", "m", "B", "_x", "x10", "x9", "Aa", "k2")
    BOOLS = ("c", "Zb", "_f", "b0", "y1")
    OWNED = ("q", "R", "_q", "q10", "q9")
    BORROWED = ("s", "S2")
    TEMPS = ("t", "T1", "_t")

    def __init__(self, rng, small=False):
        self.r = rng
        r = rng
        self.p_int = r.sample(self.INTS, r.randint(1, 3))
        self.p_bool = r.sample(self.BOOLS, r.randint(1, 2))
        self.owned = r.sample(self.OWNED, r.choice([0, 1, 1, 2, 2, 3]))
        self.borrowed = r.sample(self.BORROWED, r.choice([0, 0, 1, 1, 2]))
        self.ret_q = [v for v in self.owned if r.random() < 0.7]
        r.shuffle(self.ret_q)
        self.ret_tys = [r.choice(["int", "int", "bool"]) for _ in range(r.choice([0, 1, 2, 2, 3]))]
        self.budget = r.randint(2, 5) if small else r.randint(4, 14)
        self.maxd = 2 if small else r.choice([2, 3, 3, 4])
        self.nloop = 0

    # env: {"i": set of defined ints, "b": set of defined bools, "lin": set of live consumable/other linear vars}
    def int_expr(self, env, d=2):
        r = self.r
        vs = sorted(env["i"])
        if d <= 0 or r.random() < 0.35:
            return r.choice(vs) if vs and r.random() < 0.75 else str(r.randint(0, 9))
        k = r.random()
        if k < 0.7:
            return f"({self.int_expr(env, d - 1)} {r.choice('+-*')} {self.int_expr(env, d - 1)})"
        if k < 0.8:
            return f"(-{self.int_expr(env, d - 1)})"
        return f"({self.int_expr(env, d - 1)} if {self.bool_expr(env, d - 1)} else {self.int_expr(env, d - 1)})"

    def bool_expr(self, env, d=2):
        r = self.r
        vs = sorted(env["b"])
        if d <= 0 or r.random() < 0.25:
            if vs and r.random() < 0.6:
                return r.choice(vs)
            return f"{self.int_expr(env, 0)} {r.choice(['<', '<=', '>', '>=', '==', '!='])} {self.int_expr(env, 0)}"
        k = r.random()
        if k < 0.45:
            return f"{self.int_expr(env, d - 1)} {r.choice(['<', '<=', '>', '>=', '==', '!='])} {self.int_expr(env, d - 1)}"
        if k < 0.8:
            return f"({self.bool_expr(env, d - 1)} {r.choice(['and', 'or'])} {self.bool_expr(env, d - 1)})"
        return f"(not {self.bool_expr(env, d - 1)})"

    def qubits(self, env):
        return sorted(set(self.ret_q) | set(self.borrowed) | env["lin"])

    def simple(self, env, base):
        """one non-control statement (list of lines); `base` = linear variables that must not be consumed here"""
        r = self.r
        qs = self.qubits(env)
        consumable = sorted(env["lin"] - base)
        k = self.r.random()
        if k < 0.4:
            v = r.choice(self.INTS)
            line = f"{v} = {self.int_expr(env)}"
            env["i"].add(v)
            return [line]
        if k < 0.55:
            v = r.choice(self.BOOLS)
            line = f"{v} = {self.bool_expr(env)}"
            env["b"].add(v)
            return [line]
        if k < 0.65 and env["i"]:
            return [f"{r.choice(sorted(env['i']))} {r.choice(['+=', '-=', '*='])} {self.int_expr(env, 1)}"]
        if k < 0.8 and qs:
            if len(qs) >= 2 and r.random() < 0.4:
                a, b = r.sample(qs, 2)
                return [f"cx({a}, {b})"]
            return [f"{r.choice(['h', 'x'])}({r.choice(qs)})"]
        if k < 0.9:
            free = [t for t in self.TEMPS if t not in env["lin"]]
            if free:
                t = r.choice(free)
                env["lin"].add(t)
                return [f"{t} = qubit()"]
        if consumable:
            v = r.choice(consumable)
            env["lin"].discard(v)
            if r.random() < 0.6:
                b = r.choice(self.BOOLS)
                env["b"].add(b)
                return [f"{b} = measure({v})"]
            return [f"discard({v})"]
        return ["pass"]

    def ret_lines(self, env):
        """consume what must not leak, then return"""
        lines = [f"discard({v})" for v in sorted(env["lin"])]
        vals = [self.int_expr(env, 1) if t == "int" else self.bool_expr(env, 1) for t in self.ret_tys] + list(self.ret_q)
        lines.append("return " + ", ".join(vals) if vals else "return")
        return lines

    def block(self, d, env, loop_base, base):
        """-> (lines, jumped). loop_base: linear set to restore before break/continue (None outside loops)"""
        out = []
        for _ in range(self.r.randint(1, 3)):
            if self.budget <= 0:
                break
            self.budget -= 1
            lines, jumped = self.stmt(d, env, loop_base, base)
            out += lines
            if jumped:
                return out, True
        return out or ["pass"], False

    def stmt(self, d, env, loop_base, base):
        r = self.r
        k = r.random()
        ctrl = d > 0
        if ctrl and k < 0.3:
            return self.gen_if(d, env, loop_base, base)
        if ctrl and k < 0.42:
            return self.gen_while(d, env, base), False
        if ctrl and k < 0.47:
            return self.gen_for(d, env, base), False
        if loop_base is not None and k < 0.53:
            pre = [f"discard({v})" for v in sorted(env["lin"] - loop_base)]
            return pre + [r.choice(["break", "continue"])], True
        if k < 0.57 and d < self.maxd:
            return self.ret_lines(env), True
        return self.simple(env, base), False

    @staticmethod
    def _copy(env):
        return {k: set(v) for k, v in env.items()}

    def gen_if(self, d, env, loop_base, base, depth=0):
        r = self.r
        cond = self.bool_expr(env)
        e1, e2 = self._copy(env), self._copy(env)
        b1, j1 = self.block(d - 1, e1, loop_base, base)
        q = r.random()
        kw = "if" if depth == 0 else "elif"
        lines = [f"{kw} {cond}:"]
        if q < 0.3:
            b2, j2, has_else = [], False, False
        elif q < 0.5 and depth < 2 and self.budget > 0:
            self.budget -= 1
            sub, j2 = self.gen_if(d, e2, loop_base, base, depth + 1)
            b2, has_else = sub, "elif"
        else:
            b2, j2 = self.block(d - 1, e2, loop_base, base)
            has_else = True
        # make the linear live sets agree at the merge
        if not j1 and not j2:
            for v in sorted(e1["lin"] - e2["lin"]):
                b1.append(f"discard({v})")
                e1["lin"].discard(v)
            extra = sorted(e2["lin"] - e1["lin"])
            if extra:
                if has_else == "elif" or not has_else:
                    # cannot append to an elif chain / missing else: add an explicit else only when there is none
                    if not has_else:
                        b2 = [f"discard({v})" for v in extra]
                        has_else = True
                    else:
                        return self._if_fallback(cond, b1, env, e1, kw)
                else:
                    b2 += [f"discard({v})" for v in extra]
                for v in extra:
                    e2["lin"].discard(v)
        lines += ["    " + l for l in b1]
        if has_else == "elif":
            lines += b2
        elif has_else:
            lines += ["else:"] + ["    " + l for l in b2]
        if j1 and j2 and has_else:
            new = e1
            jumped = True
        else:
            jumped = False
            if j1:
                new = e2
            elif j2:
                new = e1
            else:
                new = {"i": e1["i"] & e2["i"], "b": e1["b"] & e2["b"], "lin": e1["lin"] & e2["lin"]}
        for k2 in env:
            env[k2].clear()
            env[k2].update(new[k2])
        return lines, jumped

    def _if_fallback(self, cond, b1, env, e1, kw):
        """then-branch only, with an else that keeps the linear sets equal"""
        extra = sorted(env["lin"] - e1["lin"])
        lines = [f"{kw} {cond}:"] + ["    " + l for l in b1]
        if extra:
            lines += ["else:"] + [f"    discard({v})" for v in extra]
        new = {"i": e1["i"] & env["i"], "b": e1["b"] & env["b"], "lin": e1["lin"] & env["lin"]}
        for k2 in env:
            env[k2].clear()
            env[k2].update(new[k2])
        return lines, False

    def gen_while(self, d, env, base):
        r = self.r
        pre = []
        if r.random() < 0.6:
            w = f"w{self.nloop}"
            pre = [f"{w} = {r.randint(0, 4)}"]
            env["i"].add(w)
            cond = f"{w} > 0" if r.random() < 0.7 else f"({w} > 0 and {self.bool_expr(env, 1)})"
            head = [f"{w} -= 1"]
        else:
            cond = self.bool_expr(env) if r.random() < 0.85 else "True"
            head = []
        self.nloop += 1
        benv = self._copy(env)
        inner_base = set(env["lin"])
        body, j = self.block(d - 1, benv, inner_base, base | inner_base)
        if not j:
            body += [f"discard({v})" for v in sorted(benv["lin"] - inner_base)]
        self.nloop -= 1
        if cond == "True" and not any("break" in l or "return" in l for l in body):
            body.append(f"if {self.bool_expr(env, 1)}:")
            body.append("    break")
        return pre + [f"while {cond}:"] + ["    " + l for l in head + body]

    def gen_for(self, d, env, base):
        r = self.r
        v = f"i{self.nloop}"
        bound = r.choice([str(r.randint(0, 4)), self.int_expr(env, 1)])
        self.nloop += 1
        benv = self._copy(env)
        benv["i"].add(v)
        inner_base = set(env["lin"])
        body, j = self.block(d - 1, benv, inner_base, base | inner_base)
        if not j:
            body += [f"discard({x})" for x in sorted(benv["lin"] - inner_base)]
        self.nloop -= 1
        return [f"for {v} in range({bound}):"] + ["    " + l for l in body]

    def program(self) -> str:
        r = self.r
        params = [f"{v}: int" for v in self.p_int] + [f"{v}: bool" for v in self.p_bool]
        params += [f"{v}: qubit @owned" for v in self.owned] + [f"{v}: qubit" for v in self.borrowed]
        r.shuffle(params)
        tys = self.ret_tys + ["qubit"] * len(self.ret_q)
        ret = "None" if not tys else tys[0] if len(tys) == 1 else "tuple[" + ", ".join(tys) + "]"
        env = {"i": set(self.p_int), "b": set(self.p_bool), "lin": set(self.owned) - set(self.ret_q)}
        body, jumped = self.block(self.maxd, env, None, set())
        if not jumped:
            body += self.ret_lines(env)
        return "@guppy\ndef main(" + ", ".join(params) + f") -> {ret}:\n" + "".join("    " + l + "\n" for l in body)


def gen_wire_program(rng, small=False) -> str:
    return WGen(rng, small).program()


# ---------------------------------------------------------------- the wiring tie


def _wire_kind(e):
    if any(e["exits"]):
        return "wire:exit-edge"
    if len(e["succ"]) == 1:
        return "wire:single-successor"
    rc = e["rec"]
    if "ambiguous" in rc:
        return "wire:ambiguous"
    return "wire:tuplesum" if rc["variants"] is not None else "wire:branch-same-places"


def _sx_list(s: str):
    """tiny S-expression reader -> nested lists of atoms"""
    toks = re.findall(r"[()]|[^\s()]+", s)
    pos = 0

    def rd():
        nonlocal pos
        t = toks[pos]
        pos += 1
        if t == "(":
            out = []
            while toks[pos] != ")":
                out.append(rd())
            pos += 1
            return out
        return t

    out = []
    while pos < len(toks):
        out.append(rd())
    return out


def _parse_wire_reply(rep: str):
    """`ok (inputs P*) (deliver (P*) ...)` -> (inputs, [delivered...]) with P -> (name, bool)"""
    try:
        sx = _sx_list(rep)
        if sx[0] != "ok" or sx[1][0] != "inputs" or sx[2][0] != "deliver":
            return None
        pl = lambda ps: [(p[1], p[2] == "1") for p in ps]  # noqa: E731
        return pl(sx[1][1:]), [pl(row) for row in sx[2][1:]]
    except Exception:  # noqa: BLE001
        return None


def load_wire_corpus():
    out = []
    p = os.path.join(vlib.VERIF, "corpus", "c03", "wiring.json")
    if os.path.exists(p):
        for c in json.load(open(p)):
            out.append(("corpus:" + c.get("name", "?"), c["source"]))
    return out


def tie_wiring(ctx, n=None, use_model=True):
    """T-obj tie for compile_bb / sort_vars / choose_vars_for_tuple_sum / insert_return_vars (second phase of C03)"""
    rng = ctx.rng
    t0 = time.time()
    cases = load_wire_corpus()
    rp = (ctx.replay_in or {}).get("replay") or {}
    if "wiring_source" in rp:
        cases.append(("replay", rp["wiring_source"]))
    for k in range(n if n is not None else ctx.n(150, 2500)):
        cases.append((f"gen{k}", gen_wire_program(rng, small=(k % 5 == 0))))
    st = {"programs": 0, "lowered": 0, "rejected": {}, "crash": {}, "bbs": 0, "edges": 0, "exit_edges": 0, "tuplesum_bbs": 0,
          "branching_bbs": 0, "bbs_with_nondroppable": 0, "ambiguous_bbs": 0, "skipped_bad_names": 0,
          "rows_with_2plus_same_droppability": 0, "model_compared": 0}
    lines, slots = [], []
    for name, src in cases:
        st["programs"] += 1
        try:
            res = wire_eval(src)
        except Exception as e:  # noqa: BLE001
            res = {"status": "crash", "detail": "harness:" + type(e).__name__ + ":" + str(e)[:200], "bbs": [], "fail": [], "source": src}
        if res["status"] != "ok":
            d = st["rejected" if res["status"] == "rejected" else "crash"]
            d[str(res["detail"])[:80]] = d.get(str(res["detail"])[:80], 0) + 1
            ctx.bump("wire:" + res["status"])
            if res["status"] == "crash":  # an accepted program the real compiler cannot lower: a concrete failing input
                ctx.violation(f"wire:{src}|crash", f"block wiring: the real compiler crashed ({res['detail']}) while lowering the "
                              f"accepted program\n{src}", {"wiring_source": src, "where": "crash", "what": str(res["detail"])})
            continue
        st["lowered"] += 1
        st["ambiguous_bbs"] += res["ambiguous"]
        if res["bad_names"]:
            st["skipped_bad_names"] += 1
            continue
        for where, what in res["fail"]:
            ctx.violation(f"wire:{src}|{where}", f"block wiring: {what}; source:\n{src}",
                          {"wiring_source": src, "where": where, "what": what})
        for e in res["bbs"]:
            st["bbs"] += 1
            st["edges"] += len(e["succ"])
            st["exit_edges"] += sum(e["exits"])
            rows = [e["sig_in"], *e["sig_out"]]
            nd = any(not d for row in rows for _, d in row)
            st["bbs_with_nondroppable"] += nd
            st["branching_bbs"] += len(e["succ"]) > 1
            st["rows_with_2plus_same_droppability"] += any(sum(1 for _, d in row if d) >= 2 for row in rows)
            kind = _wire_kind(e)
            st["tuplesum_bbs"] += kind == "wire:tuplesum"
            nt = max(len(r_) for r_ in rows) >= 2 and (len(e["succ"]) > 1 or any(e["exits"]))
            ctx.count({"source": src, "bb": e["tag"] + str(e["idx"])}, nt, kind)
            if "ambiguous" not in e["rec"]:
                lines.append(e["request"])
                slots.append((src, e))
    if use_model and lines:
        replies = ctx.driver(DRIVER, lines)
        for (src, e), line, rep in zip(slots, lines, replies):
            got = _parse_wire_reply(rep)
            real = (e["rec"]["inputs"], e["delivered"])
            st["model_compared"] += 1
            if got is None or (got[0], got[1]) != real:
                ctx.broke(f"correspondence Model/Wiring.lean vs cfg_compiler.compile_bb on block {e['idx']}: request={line[:500]} "
                          f"model={rep[:500]} real inputs={real[0]} delivered={real[1]} source:\n{src}")
    st["wall_s"] = round(time.time() - t0, 2)
    ctx.extra["wiring"] = st
    return st


# ============================================================================ end-to-end execution (c03_hugr.py): lowered HUGR vs CPython


# ============================================================================ name resolution of nested functions (Model/Scope.lean)

SCOPE_SRC = [
    # (source, entry functions): module-level functions with nested non-capturing functions, self-recursive or not, named like a
    # module-level function / a builtin / fresh
    ("""@guppy
def count(n: int) -> int:
    return 100 + n

@guppy
def halve(n: int) -> int:
    return n // 2

@guppy
def main(n: int) -> int:
    def count(k: int) -> int:
        if k <= 0:
            return 0
        return k + count(k - 1)
    def fresh(k: int) -> int:
        if k <= 0:
            return halve(k)
        return fresh(k - 1) + halve(k)
    def triple(k: int) -> int:
        return k * 3
    return count(n) + fresh(n) + triple(n)

@guppy
def other(n: int) -> int:
    def abs(k: int) -> int:
        if k <= 0:
            return halve(k)
        return abs(k - 2) + 1
    def len_(k: int) -> int:
        def count(j: int) -> int:
            if j <= 0:
                return 1
            return j * count(j - 1)
        return count(k % 4)
    return abs(n) + len_(n) + count(n)
""", ["main", "other"]),
]


def _scope_sx(ns: dict, pool, ids, objs) -> str:
    from guppylang.defs import GuppyDefinition

    out = []
    for n in pool:
        if n in ns:
            v = ns[n]
            if isinstance(v, GuppyDefinition):
                out.append(f"({n} d {ids.setdefault(v.id, len(ids) + 1)})")
            else:
                objs.append(v)
                out.append(f"({n} p {len(objs)})")
    return " ".join(out)


def tie_scope(ctx):
    """`Globals.__getitem__` and the scope `check_nested_func_def` builds for the body of a nested function vs Lean
    `Scope.lookup` / `Scope.bindNested` (Model/Scope.lean; theorem nested_recursion_resolves_to_itself): the real `check_cfg` is
    wrapped while real module-level functions with nested functions are checked; for every nested body the `Globals` object it is
    checked with is compared, name by name, with the model's lookup in the enclosing function's namespaces (+ the nested binding)."""
    import feed
    import guppylang_internals.checker.func_checker as fc
    from guppylang_internals.checker.core import Globals, PythonObject
    from guppylang_internals.error import InternalGuppyError

    t0 = time.time()
    st = {"programs": 0, "nested_bodies": 0, "self_recursive_rebound": 0, "lookups": 0, "mismatches": 0, "shadowing_a_global": 0}
    sources = list(SCOPE_SRC)
    try:
        sys.path.insert(0, os.path.dirname(os.path.abspath(__file__)))
        import random

        import c03_hugr

        rng = random.Random(f"scope:{ctx.seed}")
        for _ in range(ctx.n(6, 60)):
            src, ents, feat = c03_hugr.gen_exec_program(rng, "C03", small=True, focus="nested")
            if feat.get("nested_defs"):
                sources.append((src, [e[0] for e in ents]))
    except Exception as e:  # noqa: BLE001
        ctx.broke(f"harness: tie_scope could not generate programs: {type(e).__name__}: {e}")
    real_check_cfg, real_nested = fc.check_cfg, fc.check_nested_func_def
    lines, expect = [], []
    for src, entries in sources:
        try:
            m = feed.load(src)
        except Exception as e:  # noqa: BLE001
            ctx.broke(f"harness: tie_scope program does not load: {type(e).__name__}: {e}")
            continue
        st["programs"] += 1
        try:
            for fn in entries:
                rec, stack = [], []

                def wrapped(cfg, inputs, return_ty, generic_params, func_name, globals, *a, _rec=rec, _st=stack, **k):
                    if _st and _st[-1][0] == func_name and not _st[-1][2]:
                        _st[-1][2].append(1)
                        _rec.append((func_name, _st[-1][1], globals))
                    return real_check_cfg(cfg, inputs, return_ty, generic_params, func_name, globals, *a, **k)

                def wrapped_nested(func_def, bb, ctx_, *a, _st=stack, **k):
                    _st.append((func_def.name, ctx_.globals, []))
                    try:
                        return real_nested(func_def, bb, ctx_, *a, **k)
                    finally:
                        _st.pop()

                fc.check_cfg, fc.check_nested_func_def = wrapped, wrapped_nested
                patched = []
                for modname in ("guppylang_internals.checker.stmt_checker", "guppylang_internals.checker.expr_checker"):
                    mod = sys.modules.get(modname)
                    if mod is not None and getattr(mod, "check_nested_func_def", None) is real_nested:
                        mod.check_nested_func_def = wrapped_nested
                        patched.append(mod)
                try:
                    kind, exc = feed.check_outcome(getattr(m, fn))
                finally:
                    fc.check_cfg, fc.check_nested_func_def = real_check_cfg, real_nested
                    for mod in patched:
                        mod.check_nested_func_def = real_nested
                if kind != "ok":
                    # a legal program (CPython runs it): rejected only if name resolution went wrong
                    ctx.violation("input:" + src + "|" + fn, f"legal program with nested functions rejected by the checker "
                                  f"({feed.err_class(exc)}); source:\n{src}", {"source": src, "function": fn, "error": feed.err_class(exc)})
                    continue
                if not rec:
                    continue
                tree = ast.parse(src)
                pool = sorted({n.name for n in ast.walk(tree) if isinstance(n, ast.FunctionDef)} | {"abs", "len", "int", "range", "zz_undefined"})
                blt_real = Globals.builtin_defs()
                for name, g0, g1 in rec:
                    st["nested_bodies"] += 1
                    ids, objs = {}, []
                    loc = _scope_sx(g0.f_locals, pool, ids, objs)
                    glob = _scope_sx(g0.f_globals, pool, ids, objs)
                    blt = " ".join(f"({n} {ids.setdefault(blt_real[n].id, len(ids) + 1)})" for n in pool if n in blt_real)
                    rebound = g1 is not g0
                    st["self_recursive_rebound"] += rebound
                    st["shadowing_a_global"] += rebound and (name in g0.f_locals or name in g0.f_globals)
                    for x in pool:
                        try:
                            r = g1[x]
                            if isinstance(r, PythonObject):
                                k = next((i + 1 for i, o in enumerate(objs) if o is r.obj), None)
                                real = f"py {k}" if k else "py ?"
                            else:
                                real = f"defn {ids[r.id]}" if r.id in ids else "defn 999"  # 999: a definition unknown to the frame
                        except InternalGuppyError:
                            real = "missing"
                        lines.append(f"(scope {'l' if rebound else '-'} {name} 999 {x} (loc {loc}) (glob {glob}) (blt {blt}))")
                        expect.append((src, fn, name, x, real))
        finally:
            feed.unload(m)
    st["real_side_s"] = round(time.time() - t0, 2)
    replies = ctx.driver(DRIVER, lines) if lines else []
    st["driver_s"] = round(time.time() - t0 - st["real_side_s"], 2)
    bad = None
    for (src, fn, name, x, real), rep in zip(expect, replies):
        st["lookups"] += 1
        ctx.count({"source": src, "fn": fn, "nested": name, "name": x}, x == name, "scope:" + real.split()[0])
        if rep.strip() != real:
            st["mismatches"] += 1
            bad = bad or (src, fn, name, x, real, rep.strip())
    if bad:
        src, fn, name, x, real, rep = bad
        ctx.broke(f"model: inside nested function `{name}` of `{fn}` the name `{x}` resolves to `{real}` in the real checker's scope "
                  f"but to `{rep}` in Scope.lookup / bindNested; source:\n{src}")
        search(ctx, ["scope: nested-function name resolution differs from the model"])
    st["wall_s"] = round(time.time() - t0, 2)
    ctx.extra["scope"] = st
    return st


def tie_hugr_exec(ctx, pid="C03", n=None, budget_s=None):
    """typed programs (corpus/<pid>/hugr_exec.json first, then c03_hugr.HGen) are checked and lowered by the real compiler,
    the lowered HUGR is interpreted under two schedules and compared with CPython running the same source: returned value +
    sequence of result() reports.  A disagreement / an ill-formed HUGR is a failing input (`input:<source>|<function>|<args>`)"""
    sys.path.insert(0, os.path.dirname(os.path.abspath(__file__)))
    import c03_hugr

    return c03_hugr.tie_hugr_exec(ctx, pid, n=n, budget_s=budget_s)


# ============================================================================ typed probes (T-obj): expressions in assignment targets

PROBE_HEADER = (
    "from guppylang import guppy\n"
    "from guppylang.std.builtins import array, owned, result\n"
    "@guppy\n"
    "def idx() -> int:\n"
    '    result("i", 1)\n'
    "    return 1\n"
)


def count_calls(g, helper: str) -> int:
    """number of hugr `Call` nodes in the lowered module whose callee is the FuncDefn/FuncDecl named `helper`"""
    from hugr import ops
    from hugr.hugr.node_port import InPort

    n = 0
    for node in g.hugr:
        op = g.hugr[node].op
        if isinstance(op, ops.Call):
            for sp in g.hugr.linked_ports(InPort(node, op._function_port_offset())):
                sop = g.hugr[sp.node].op
                if isinstance(sop, (ops.FuncDefn, ops.FuncDecl)) and (sop.f_name == helper or sop.f_name.endswith("." + helper)):
                    n += 1
    return n


def probe_eval(source: str, helper: str | None = None) -> dict:
    """load + check (+ lower and count calls of `helper`) a typed probe with the real compiler"""
    import feed

    out = {"check": None, "error": None, "lowered": None, "calls": None}
    try:
        m = feed.load(source, PROBE_HEADER)
    except Exception as e:  # noqa: BLE001
        out["check"], out["error"] = "load-failed", type(e).__name__ + ": " + str(e)[:200]
        return out
    try:
        kind, exc = feed.check_outcome(m.main)
        out["check"] = kind
        if kind != "ok":
            out["error"] = feed.err_class(exc) + ": " + str(exc)[:200]
            return out
        try:
            g = feed.lower(m.main)
            out["lowered"] = True
            if helper:
                out["calls"] = count_calls(g, helper)
        except Exception as e:  # noqa: BLE001
            out["lowered"] = False
            out["error"] = "lower: " + type(e).__name__ + ": " + str(e)[:200]
    finally:
        feed.unload(m)
    return out


def load_probe_corpus(prop: str, fname: str):
    p = os.path.join(vlib.VERIF, "corpus", prop, fname)
    return json.load(open(p)) if os.path.exists(p) else []


def tie_probes(ctx):
    """C03: typed programs that must be accepted and lower: control-flow expressions inside assignment targets (9df9073);
    programs whose operands the repaired builder stores in temporaries (f9e33c1, 7c8aeda: d9_fixed_typed.json)"""
    n = 0
    for c in load_probe_corpus("c03", "target_exprs.json") + load_probe_corpus("c03", "d9_fixed_typed.json"):
        r = probe_eval(c["source"])
        ok = r["check"] == "ok" and r["lowered"]
        n += 1
        ctx.count({"probe": c["name"], "source": c["source"]}, True, "probe:" + ("accepted" if ok else "failed"))
        if not ok:
            ctx.violation("probe:" + c["name"],
                          f"typed probe `{c['name']}` (expected: accepted and lowered) fails with {r['check']} / {r['error']}; "
                          f"source:\n{c['source']}", {"probe": c["name"], "probe_source": c["source"], "result": r})
    ctx.extra["target_expr_probes"] = n


def tie_call_probes(ctx):
    """C05: number of Call nodes of the side-effecting helper in the lowered Hugr == number of call expressions in the source
    (every call expression is lowered exactly once; `a < idx() < b` has ONE since 7c8aeda)"""
    n = 0
    for c in load_probe_corpus("c05", "call_counts.json"):
        r = probe_eval(c["source"], c.get("helper", "idx"))
        n += 1
        good = r["check"] == "ok" and r["lowered"] and r["calls"] == c["calls"]
        ctx.count({"probe": c["name"], "source": c["source"]}, True, "probe:" + ("calls-as-python" if good else "failed"))
        if good:
            continue
        what = (f"typed probe `{c['name']}`: the lowered Hugr has {r['calls']} Call nodes of `{c.get('helper', 'idx')}`, Python "
                f"evaluates {c['calls']} (check={r['check']} error={r['error']}); source:\n{c['source']}")
        ctx.violation("probe:" + c["name"], what,
                      {"probe": c["name"], "probe_source": c["source"], "result": r, "expected_calls": c["calls"]})
    ctx.extra["call_count_probes"] = n


# ============================================================================ order edges (track_hugr_side_effects): T-obj phase of C05

ORDER_PRELUDE = (
    "from guppylang import guppy\n"
    "from guppylang.std.builtins import *\n"
    "from guppylang.std.quantum import qubit, h, x, cx, measure, discard, measure_array, discard_array\n"
    "from guppylang.std.option import Option, some, nothing\n"
)


class OrderRecorder:
    """Records what `core.track_hugr_side_effects` really does while the real compiler lowers a program.  Nothing in /repo
    is touched: `Hugr.add_node`, `Hugr.add_order_link` (class attributes) and the module global
    `core.track_hugr_side_effects` are wrapped for the duration of the `with` block and restored after.  core's context
    manager saves whatever `Hugr.add_node` is at entry and wraps THAT, so the logger sees every insertion (before the
    order links the real code adds for it).

      hugrs[id(h)]  = {"hugr": h, "nodes": [(parent index | None, op, context index | None, real may_have_side_effect)]}
                      in creation order (index in the list == Node.idx; checked)
      contexts[k]   = {"fn": name of the definition being compiled, "links": [(id(h), src idx, dst idx)] in call order,
                       "end": {id(h): number of nodes at context exit}, "children_ok": bool, "raised": exception | None}
    """

    def __init__(self):
        self.hugrs, self.contexts, self.anomalies = {}, [], []
        self.stray_links = self.parent_none_calls = self.synced = 0
        self._stack, self._undo, self._last = [], [], None

    def _patch(self, obj, name, new):
        old = getattr(obj, name)
        self._undo.append((obj, name, old))
        setattr(obj, name, new)
        return old

    def _rec(self, hg):
        h = self.hugrs.get(id(hg))
        if h is None:
            h = self.hugrs[id(hg)] = {"hugr": hg, "nodes": []}
        self._last = id(hg)
        return h

    def _sync(self, h, upto):
        """nodes that entered the Hugr without `add_node` (the module root): EFF = 0, outside every context"""
        from hugr import Node

        hg = h["hugr"]
        while len(h["nodes"]) < upto:
            d = hg[Node(len(h["nodes"]))]
            h["nodes"].append((d.parent.idx if d.parent is not None else None, d.op, None, False))
            self.synced += 1

    def _children_ok(self, h):
        """`hugr.children(p)` == the children of p in creation order, for every p (so [0]/[1] are the first two created)"""
        from hugr import Node

        by_parent = {}
        for i, nd in enumerate(h["nodes"]):
            if nd[0] is not None:
                by_parent.setdefault(nd[0], []).append(i)
        hg = h["hugr"]
        return all([c.idx for c in hg.children(Node(p))] == ch for p, ch in by_parent.items())

    def __enter__(self):
        import guppylang_internals.compiler.core as core
        from hugr import Hugr

        rec = self
        o_add, o_link, o_track = Hugr.add_node, Hugr.add_order_link, core.track_hugr_side_effects

        def add_node(self, op, parent=None, num_outs=None, metadata=None):
            h = rec._rec(self)
            if not h["nodes"]:
                rec._sync(h, len(self._nodes))
            node = o_add(self, op, parent, num_outs, metadata)
            rec._sync(h, node.idx)
            if node.idx != len(h["nodes"]) or getattr(self, "_free_nodes", None):
                rec.anomalies.append(f"node index {node.idx} is not the creation index {len(h['nodes'])}")
            par = self[node].parent
            if parent is None:
                rec.parent_none_calls += 1
            try:
                eff = bool(core.may_have_side_effect(op))
            except Exception as e:  # noqa: BLE001
                eff = False
                rec.anomalies.append("may_have_side_effect raised " + type(e).__name__)
            h["nodes"].append((par.idx if par is not None else None, op, rec._stack[-1]["k"] if rec._stack else None, eff))
            return node

        def add_order_link(self, src, dst):
            if rec._stack:
                rec._rec(self)
                rec._stack[-1]["links"].append((id(self), src.to_node().idx, dst.to_node().idx))
            else:
                rec.stray_links += 1
            return o_link(self, src, dst)

        class _Track:
            def __init__(self, fn):
                self.c = {"k": None, "fn": fn, "links": [], "end": {}, "children_ok": True, "raised": None}
                self.cm = None

            def __enter__(self):
                self.c["k"] = len(rec.contexts) + len(rec._stack)
                if rec._stack:
                    rec.anomalies.append("nested track_hugr_side_effects contexts")
                rec._stack.append(self.c)
                self.cm = o_track()
                return self.cm.__enter__()

            def __exit__(self, et, ev, tb):
                try:
                    return self.cm.__exit__(et, ev, tb)
                except BaseException as e:
                    self.c["raised"] = type(e).__name__ + ": " + str(e)[:200]
                    raise
                finally:
                    if et is not None and self.c["raised"] is None:
                        self.c["raised"] = et.__name__ + ": " + str(ev)[:200]
                    rec._stack.pop()
                    for hid, h in rec.hugrs.items():
                        self.c["end"][hid] = len(h["nodes"])
                        if not rec._children_ok(h):
                            self.c["children_ok"] = False
                    rec.contexts.append(self.c)

        def track():
            fn = None
            try:
                d = sys._getframe(1).f_locals.get("next_def")
                fn = getattr(d, "name", None)
            except Exception:  # noqa: BLE001
                pass
            return _Track(fn)

        self._patch(Hugr, "add_node", add_node)
        self._patch(Hugr, "add_order_link", add_order_link)
        self._patch(core, "track_hugr_side_effects", track)
        return self

    def __exit__(self, *exc):
        for obj, name, old in reversed(self._undo):
            setattr(obj, name, old)
        self._undo = []
        return False


def order_lower(source: str):
    """check + lower a typed program with the real compiler under an OrderRecorder.
    -> ("ok", recorder) | ("rejected", error class) | ("crash", what)"""
    import feed

    try:
        m = feed.load(source, ORDER_PRELUDE)
    except Exception as e:  # noqa: BLE001
        return "rejected", "load:" + type(e).__name__
    try:
        if not hasattr(m, "main"):
            return "rejected", "load:no-main"
        kind, exc = feed.check_outcome(m.main)
        if kind != "ok":
            return ("rejected" if kind == "user" else "crash"), feed.err_class(exc)
        with OrderRecorder() as rec:
            try:
                feed.lower(m.main)
            except Exception as e:  # noqa: BLE001
                return "crash", "lower:" + type(e).__name__ + ":" + str(e)[:200]
        return "ok", rec
    finally:
        feed.unload(m)


def _order_kind(op) -> str:
    from hugr import ops

    return "f" if isinstance(op, ops.FuncDefn) else "c" if isinstance(op, ops.Conditional) else "g" if isinstance(op, ops.CFG) else "o"


def _order_opname(op) -> str:
    """qualified name of an extension op (independent of core.may_have_side_effect), else the op class name"""
    from hugr import ops

    if isinstance(op, ops.ExtOp):
        d = op.op_def()
        ext = getattr(d, "_extension", None)
        return f"{ext.name}.{d.name}" if ext is not None else d.name
    if isinstance(op, ops.Custom):
        return f"{op.extension}.{op.op_name}" if op.extension else op.op_name
    return type(op).__name__


def order_oracle(nodes, k, links, effect_names):
    """The literal reading of `order edges keep side effects in program order`, on recorded real data only.

    nodes: [(parent | None, op, context | None, _)] in creation order; k: this context; links: [(src, dst)] added in this
    context.  A node has a side effect iff it is a Call / CallIndirect or an extension op whose qualified name is in
    `effect_names` (the real EXTENSION_OPS_WITH_SIDE_EFFECTS).  For every region parent p (not Conditional / CFG) with a
    side-effecting descendant created in this context (not looking through a FuncDefn below p) the order edges among p's
    children must be exactly the path Input -> n1 -> ... -> nk -> Output, n_i = the children of p that are / contain such
    a node, by creation time of their first side-effecting descendant.  -> (failures, facts)"""
    from hugr import ops

    par = [nd[0] for nd in nodes]
    children = {}
    for i, p in enumerate(par):
        if p is not None:
            children.setdefault(p, []).append(i)
    member = {}  # region parent -> {child: creation index of its first side-effecting descendant (itself for a leaf)}
    fails, effs = [], []
    for i, nd in enumerate(nodes):
        if nd[2] != k:
            continue
        op = nd[1]
        if not (isinstance(op, (ops.Call, ops.CallIndirect)) or (isinstance(op, (ops.ExtOp, ops.Custom)) and _order_opname(op) in effect_names)):
            continue
        effs.append(i)
        cur = i
        while True:
            p = par[cur]
            if p is None:
                fails.append(f"side-effecting node {i} ({_order_opname(op)}) is not inside a function definition")
                break
            member.setdefault(p, {}).setdefault(cur, i)
            if isinstance(nodes[p][1], ops.FuncDefn):
                break
            cur = p
    got = {}
    for a, b in links:
        if not (0 <= a < len(nodes) and 0 <= b < len(nodes)) or par[a] is None or par[a] != par[b]:
            fails.append(f"order edge {a} -> {b} connects nodes that are not siblings")
            continue
        got.setdefault(par[a], []).append((a, b))
    regions = linked_containers = 0
    for p in sorted(set(member) | set(got)):
        mem = member.get(p, {})
        if not mem or isinstance(nodes[p][1], (ops.Conditional, ops.CFG)):
            want = []
        else:
            regions += 1
            ch = children[p]
            if len(ch) < 2 or not isinstance(nodes[ch[0]][1], ops.Input) or not isinstance(nodes[ch[1]][1], ops.Output):
                fails.append(f"region {p} ({_order_opname(nodes[p][1])}): its first two children are not Input, Output")
                continue
            seq = [ch[0], *sorted(mem, key=lambda c: mem[c]), ch[1]]
            want = list(zip(seq, seq[1:]))
            linked_containers += sum(1 for c in mem if c in children)
        have = got.get(p, [])
        if sorted(have) != sorted(want):
            fails.append(f"region {p} ({_order_opname(nodes[p][1])}): order edges {sorted(have)}, expected exactly the path {want} "
                         f"(side-effecting children by first effect: {sorted(mem.items(), key=lambda kv: kv[1])})")
    from hugr import ops as _o

    def has_eff_inside(cls):
        return sum(1 for p, mem in member.items() if mem and isinstance(nodes[p][1], cls))

    facts = {"effects": len(effs), "regions": regions, "linked_containers": linked_containers,
             "cond_with_effect": has_eff_inside(_o.Conditional), "tailloop_with_effect": has_eff_inside(_o.TailLoop),
             "cfg_with_effect": has_eff_inside(_o.CFG), "dfblocks_with_effect": has_eff_inside(_o.DataflowBlock),
             "funcdefn_direct": sum(1 for p, mem in member.items() if isinstance(nodes[p][1], _o.FuncDefn) and any(c not in children for c in mem))}
    return fails, facts


def _order_shape(f) -> str:
    if not f["effects"]:
        return "order:no-effect"
    if f["tailloop_with_effect"]:
        return "order:tailloop-with-effect"
    if f["cond_with_effect"]:
        return "order:conditional-with-effect"
    if f["funcdefn_direct"]:
        return "order:effects-directly-in-funcdefn"
    return "order:several-blocks" if f["dfblocks_with_effect"] >= 2 else "order:one-block"


def order_eval(source: str) -> dict:
    """real side + oracle + model request for every track_hugr_side_effects context of one typed program"""
    import guppylang_internals.compiler.core as core

    status, rec = order_lower(source)
    res = {"source": source, "status": status, "detail": None if status == "ok" else rec, "contexts": [], "anomalies": [],
           "nodes": 0, "stray_links": 0, "parent_none_calls": 0}
    if status != "ok":
        return res
    effect_names = set(core.EXTENSION_OPS_WITH_SIDE_EFFECTS)
    res["anomalies"] = list(rec.anomalies)
    res["nodes"] = sum(len(h["nodes"]) for h in rec.hugrs.values())
    res["stray_links"], res["parent_none_calls"] = rec.stray_links, rec.parent_none_calls
    for c in rec.contexts:
        k = c["k"]
        hids = {hid for hid, h in rec.hugrs.items() if any(nd[2] == k for nd in h["nodes"])} | {l[0] for l in c["links"]}
        if len(hids) > 1:
            res["anomalies"].append(f"context {k} ({c['fn']}) touches {len(hids)} Hugr objects")
            continue
        hid = next(iter(hids)) if hids else rec._last
        if hid is None:
            continue
        nodes = rec.hugrs[hid]["nodes"][:c["end"].get(hid, 0)]
        links = [(a, b) for _, a, b in c["links"]]
        if not c["children_ok"]:
            res["anomalies"].append(f"context {k} ({c['fn']}): hugr.children(p) is not in creation order")
        fails, facts = order_oracle(nodes, k, links, effect_names)
        if c["raised"]:
            fails.append("the side-effect tracking raised " + c["raised"])
        req = "(order " + " ".join(
            f"(N {'-' if nd[0] is None else nd[0]} {_order_kind(nd[1])} {int(nd[2] == k and nd[3])})" for nd in nodes) + ")"
        res["contexts"].append({"k": k, "fn": c["fn"] or f"ctx{k}", "request": req, "links": links, "fails": fails, "facts": facts,
                                "created": sum(1 for nd in nodes if nd[2] == k), "real_eff": sum(1 for nd in nodes if nd[2] == k and nd[3])})
    return res


# ---------------------------------------------------------------- typed generator: several functions, many effects


class OGen(WGen):
    """WGen (typed control flow, linear qubits) + side effects everywhere: calls of other generated functions (also in
    conditions and arguments, recursive, through a higher-order helper), result(...), panic / exit, qubit allocation and
    measurement, and constructs whose lowering hides an effect in a hugr Conditional / TailLoop (array indexing and
    assignment, Option.unwrap, int power, array comprehensions of qubits)"""

    def __init__(self, rng, name, small=False, helper=False):
        super().__init__(rng, small)
        r = rng
        self.name, self.helpers, self.app, self.ntag = name, [], False, 0
        if helper:
            self.owned, self.borrowed, self.ret_q = [], [], []
            self.ret_tys = [r.choice(["int", "int", "bool"])] if r.random() < 0.8 else []
            self.budget = r.randint(1, 3) if small else r.randint(2, 6)
            self.maxd = r.choice([1, 2, 2, 3])
        self.has_arr = r.random() < 0.5
        self.params = [(v, "int") for v in self.p_int] + [(v, "bool") for v in self.p_bool]
        self.params += [(v, "qubit @owned") for v in self.owned] + [(v, "qubit") for v in self.borrowed]
        r.shuffle(self.params)
        self.ret = self.ret_tys[0] if helper and self.ret_tys else None

    def tag(self):
        self.ntag += 1
        return f"{self.name}{self.ntag}"

    def call(self, env, h, d):
        args = [self.int_expr(env, d - 1) if t == "int" else self.bool_expr(env, d - 1) for _, t in h.params]
        return f"{h.name}({', '.join(args)})"

    def int_expr(self, env, d=2):
        r = self.r
        if d > 0:
            k = r.random()
            hs = [h for h in self.helpers if h.ret == "int"]
            if k < 0.16 and hs:
                return self.call(env, r.choice(hs), d)
            if k < 0.24 and self.has_arr:
                return f"xs[{self.int_expr(env, d - 1)}]"
            if k < 0.29:
                return f"some({self.int_expr(env, d - 1)}).unwrap()"
            if k < 0.31:
                return f"({self.int_expr(env, d - 1)} ** 2)"
            if k < 0.35 and self.app:
                h1 = [h for h in hs if [t for _, t in h.params] == ["int"]]
                if h1:
                    return f"app({r.choice(h1).name}, {self.int_expr(env, d - 1)})"
        return super().int_expr(env, d)

    def bool_expr(self, env, d=2):
        r = self.r
        hs = [h for h in self.helpers if h.ret == "bool"]
        if d > 0 and hs and r.random() < 0.14:
            return self.call(env, r.choice(hs), d)
        return super().bool_expr(env, d)

    def simple(self, env, base):
        r = self.r
        k = r.random()
        if k < 0.16:
            v = self.int_expr(env, 1) if r.random() < 0.7 else self.bool_expr(env, 1)
            return [f'result("{self.tag()}", {v})']
        if k < 0.28 and self.helpers:
            h = r.choice(self.helpers)
            call = self.call(env, h, 2)
            if h.ret is None or r.random() < 0.4:
                return [call]
            v = r.choice(self.INTS if h.ret == "int" else self.BOOLS)
            env["i" if h.ret == "int" else "b"].add(v)
            return [f"{v} = {call}"]
        if k < 0.34:
            what = f'panic("{self.tag()}")' if r.random() < 0.75 else f'exit("{self.tag()}", 1)'
            return [f"if {self.bool_expr(env, 1)}:", "    " + what]
        if k < 0.36:
            return [f'panic("{self.tag()}")']
        if k < 0.42 and self.has_arr:
            return [f"xs[{self.int_expr(env, 1)}] {r.choice(['=', '+='])} {self.int_expr(env, 1)}"]
        if k < 0.45:
            n = self.tag()
            mid = [f"h(qs{n}[{self.int_expr(env, 0)}])"] if r.random() < 0.5 else []
            if r.random() < 0.5:
                return [f"qs{n} = array(qubit() for _ in range(2))", *mid, f"discard_array(qs{n})"]
            return [f"qs{n} = array(qubit() for _ in range(2))", *mid, f'result("{n}", measure_array(qs{n}))']
        return super().simple(env, base)

    def program(self) -> str:
        tys = self.ret_tys + ["qubit"] * len(self.ret_q)
        ret = "None" if not tys else tys[0] if len(tys) == 1 else "tuple[" + ", ".join(tys) + "]"
        env = {"i": set(self.p_int), "b": set(self.p_bool), "lin": set(self.owned) - set(self.ret_q)}
        body, jumped = self.block(self.maxd, env, None, set())
        if not jumped:
            body += self.ret_lines(env)
        if self.has_arr:
            body.insert(0, "xs = array(0, 1, 2)")
        return (f"@guppy\ndef {self.name}(" + ", ".join(f"{v}: {t}" for v, t in self.params) + f") -> {ret}:\n"
                + "".join("    " + l + "\n" for l in body))


class _CtGen:
    """a comptime helper: its body is traced, the effects land directly in the FuncDefn's dataflow region (no CFG)"""

    def __init__(self, rng, name):
        self.r, self.name, self.params, self.ret, self.helpers = rng, name, [("a", "int")], "int", []

    def program(self) -> str:
        r = self.r
        lines = []
        for j in range(r.randint(1, 5)):
            k = r.random()
            hs = [h for h in self.helpers if h is not self and not isinstance(h, _CtGen)]
            if k < 0.35:
                lines.append(f'result("{self.name}{j}", a + {j})')
            elif k < 0.6 and hs:
                h = r.choice(hs)
                lines.append(h.name + "(" + ", ".join(str(r.randint(0, 5)) if t == "int" else r.choice(["True", "False"]) for _, t in h.params) + ")")
            elif k < 0.8:
                lines += [f"q{j} = qubit()", f"h(q{j})", f'result("{self.name}m{j}", measure(q{j}))' if r.random() < 0.5 else f"discard(q{j})"]
            else:
                lines.append(f'result("{self.name}b{j}", True)')
        return f"@guppy.comptime\ndef {self.name}(a: int) -> int:\n" + "".join("    " + l + "\n" for l in lines) + "    return a + 1\n"


ORDER_APP = "@guppy\ndef app(f: Callable[[int], int], a: int) -> int:\n    return f(a)\n"


def gen_order_program(rng, small=False) -> str:
    """1-4 helper functions (int / bool parameters; any of them may call any other, itself included) + `main`"""
    r = rng
    nh = r.choice([1, 1, 2, 2, 3]) if small else r.choice([1, 2, 2, 3, 3, 4])
    fns = []
    for j in range(nh):
        if r.random() < 0.15:
            fns.append(_CtGen(r, f"f{j}"))
        else:
            fns.append(OGen(r, f"f{j}", small=small, helper=True))
    main = OGen(r, "main", small=small)
    app = r.random() < 0.3 and any(isinstance(h, OGen) and h.ret == "int" and [t for _, t in h.params] == ["int"] for h in fns)
    for g in [*fns, main]:
        g.helpers = fns
        g.app = app
    return (ORDER_APP if app else "") + "".join(g.program() for g in [*fns, main])


# ---------------------------------------------------------------- the order-edge tie


def load_order_corpus():
    return [("corpus:" + c.get("name", "?"), c["source"]) for c in load_probe_corpus("c05", "order_edges.json")]


def _parse_order_reply(rep: str):
    """`ok DUP (edges (a b) ...)` -> (dup, [(a, b)])"""
    try:
        sx = _sx_list(rep)
        if sx[0] != "ok" or sx[2][0] != "edges":
            return None
        return int(sx[1]), [(int(a), int(b)) for a, b in sx[2][1:]]
    except Exception:  # noqa: BLE001
        return None


def tie_order(ctx, n=None, use_model=True):
    """C05, T-obj: core.track_hugr_side_effects on really lowered programs vs Model/OrderEdges.lean (driver C03, `order`)
    and vs the literal reading of the property (order_oracle); one case per track_hugr_side_effects context"""
    rng = ctx.rng
    t0 = time.time()
    cases = load_order_corpus()
    rp = (ctx.replay_in or {}).get("replay") or {}
    if "order_source" in rp:
        cases.append(("replay", rp["order_source"]))
    for k in range(n if n is not None else ctx.n(90, 1400)):
        cases.append((f"gen{k}", gen_order_program(rng, small=(k % 4 == 0))))
    st = {"programs": 0, "lowered": 0, "rejected": {}, "crash": {}, "contexts": 0, "empty_contexts": 0, "contexts_with_effects": 0, "nodes": 0,
          "effect_nodes": 0, "order_edges": 0, "regions_checked": 0, "containers_linked": 0, "conditionals_with_effect": 0,
          "contexts_with_effect_in_conditional": 0, "tailloops_with_effect": 0, "contexts_effects_directly_in_funcdefn": 0,
          "max_request_nodes": 0, "stray_links": 0, "add_node_parent_none": 0, "anomalies": 0, "oracle_failures": 0,
          "model_compared": 0, "model_dup": 0}
    lines, slots = [], []
    for name, src in cases:
        st["programs"] += 1
        try:
            res = order_eval(src)
        except Exception as e:  # noqa: BLE001
            ctx.broke("harness: order_eval raised " + type(e).__name__ + ": " + str(e)[:300] + "\n" + src)
            continue
        if res["status"] != "ok":
            d = st["rejected" if res["status"] == "rejected" else "crash"]
            d[str(res["detail"])[:80]] = d.get(str(res["detail"])[:80], 0) + 1
            ctx.bump("order:" + res["status"])
            if res["status"] == "crash":
                ctx.violation(f"order:{src}|crash", f"order edges: the real compiler crashed ({res['detail']}) while lowering the "
                              f"accepted program\n{src}", {"order_source": src, "fn": None, "what": str(res["detail"])})
            elif name.startswith(("corpus:", "replay")):
                ctx.broke(f"harness: order-edge corpus program `{name}` is rejected ({res['detail']})")
            continue
        st["lowered"] += 1
        st["nodes"] += res["nodes"]
        st["stray_links"] += res["stray_links"]
        st["add_node_parent_none"] += res["parent_none_calls"]
        for a in res["anomalies"]:
            st["anomalies"] += 1
            ctx.broke(f"correspondence Model/OrderEdges.lean vs core.track_hugr_side_effects: outside the protocol: {a}; source:\n{src}")
        for c in res["contexts"]:
            f = c["facts"]
            st["contexts"] += 1
            if not c["created"] and not c["links"] and not c["fails"]:
                # compile_inner of a definition without a body of its own (types, declarations, custom functions): no node was
                # inserted and no link added in this context; nothing to compare
                st["empty_contexts"] += 1
                ctx.bump("order:empty-context")
                continue
            st["contexts_with_effects"] += f["effects"] > 0
            st["effect_nodes"] += f["effects"]
            st["order_edges"] += len(c["links"])
            st["regions_checked"] += f["regions"]
            st["containers_linked"] += f["linked_containers"]
            st["conditionals_with_effect"] += f["cond_with_effect"]
            st["contexts_with_effect_in_conditional"] += f["cond_with_effect"] > 0
            st["tailloops_with_effect"] += f["tailloop_with_effect"]
            st["contexts_effects_directly_in_funcdefn"] += f["funcdefn_direct"] > 0
            st["max_request_nodes"] = max(st["max_request_nodes"], c["request"].count("(N "))
            ctx.count({"source": src, "fn": c["fn"], "k": c["k"]}, f["effects"] >= 2 and f["linked_containers"] >= 1, _order_shape(f))
            if c["fails"]:
                st["oracle_failures"] += 1
                what = "; ".join(c["fails"][:4])
                ctx.violation("order:" + src + "|fn" + str(c["fn"]),
                              f"order edges of `{c['fn']}` do not keep its side effects in program order: {what}; source:\n{src}",
                              {"order_source": src, "fn": c["fn"], "context": c["k"], "what": c["fails"][:8], "order_links": c["links"]})
            lines.append(c["request"])
            slots.append((src, c))
    if use_model and lines:
        replies = ctx.driver(DRIVER, lines)
        for (src, c), line, rep in zip(slots, lines, replies):
            got = _parse_order_reply(rep)
            st["model_compared"] += 1
            if got is not None and got[0]:
                st["model_dup"] += 1
            if got is None or got[0] != 0 or got[1] != c["links"]:
                ctx.broke(f"correspondence Model/OrderEdges.lean vs core.track_hugr_side_effects on `{c['fn']}` (context {c['k']}): "
                          f"model={rep[:600]} real edges={c['links']} request={line[:600]} source:\n{src}")
    st["wall_s"] = round(time.time() - t0, 2)
    ctx.extra["order_edges"] = st
    return st


# ============================================================================ search + shrink


def _fails(src, rn, inputs, profile):
    """program on which the real CFG disagrees with CPython (or violates a structural fact) -> failing run or None"""
    try:
        res = eval_real(src, rn, inputs, profile)
    except Exception:  # noqa: BLE001
        return None
    if res["facts"]:
        return res, None
    for run in res["runs"]:
        if run["agree"] is False:
            return res, run
    return None


class _Shrink(ast.NodeTransformer):
    """apply the k-th applicable simplification"""

    def __init__(self, k):
        self.k = k
        self.done = False

    def _hit(self):
        if self.done:
            return False
        self.k -= 1
        if self.k < 0:
            self.done = True
            return True
        return False

    def _body(self, stmts):
        out = []
        for s in stmts:
            if isinstance(s, ast.stmt) and not isinstance(s, ast.Pass) and self._hit():
                continue  # drop the statement
            if isinstance(s, ast.If) and self._hit():
                out.extend(s.body)
                continue
            if isinstance(s, ast.If) and s.orelse and self._hit():
                out.extend(s.orelse)
                continue
            if isinstance(s, (ast.While, ast.For)) and self._hit():
                out.extend(x for x in s.body if not isinstance(x, (ast.Break, ast.Continue)))
                continue
            out.append(self.visit(s))
        return out or [ast.Pass()]

    def generic_visit(self, node):
        for f in ("body", "orelse"):
            v = getattr(node, f, None)
            if isinstance(v, list) and isinstance(node, (ast.FunctionDef, ast.If, ast.While, ast.For)):
                new = self._body(v)
                setattr(node, f, new if (f == "body" or v) else [])
        for f, v in ast.iter_fields(node):
            if f in ("body", "orelse") and isinstance(v, list):
                continue
            if isinstance(v, ast.expr) and f not in ("target", "func"):
                setattr(node, f, self.expr(v))
            elif isinstance(v, list):
                setattr(node, f, [self.expr(x) if isinstance(x, ast.expr) and f != "targets" else x for x in v])
        return node

    def expr(self, e):
        if isinstance(e, (ast.Name, ast.Constant)) or isinstance(e.ctx if hasattr(e, "ctx") else None, ast.Store):
            return e
        kids = [c for c in ast.iter_child_nodes(e) if isinstance(c, ast.expr)
                and not (isinstance(e, ast.Call) and c is e.func) and not (isinstance(e, ast.NamedExpr) and c is e.target)]
        for c in kids:
            if self._hit():
                return c
        for v in (0, 1, True, False):
            if self._hit():
                return ast.Constant(v)
        for f, v in ast.iter_fields(e):
            if isinstance(v, ast.expr) and f not in ("func", "target"):
                setattr(e, f, self.expr(v))
            elif isinstance(v, list):
                setattr(e, f, [self.expr(x) if isinstance(x, ast.expr) else x for x in v])
        return e


def shrink(src, rn, inputs, profile=Profile, rounds=400):
    """greedy: drop statements / unwrap control / replace sub-expressions while the failure persists"""
    best = (src, rn, inputs)
    k, tried = 0, 0
    while tried < rounds:
        tried += 1
        tree = ast.parse(best[0])
        sh = _Shrink(k)
        sh.visit(tree.body[0])
        if not sh.done:
            break
        try:
            cand = ast.unparse(ast.fix_missing_locations(tree)) + "\n"
            compile(cand, "<shrink>", "exec")
            surface_request(cand)
        except Exception:  # noqa: BLE001
            k += 1
            continue
        if cand != best[0] and len(cand) <= len(best[0]) and _fails(cand, rn, inputs, profile):
            best = (cand, rn, inputs)
            k = 0
        else:
            k += 1
    for inp in best[2]:
        if _fails(best[0], rn, [inp], profile):
            return best[0], rn, [inp]
    return best


def search(ctx, why, profile=Profile):
    """something broke: look for a program on which the REAL builder disagrees with CPython (half of the candidates carry
    the shapes repaired by f9e33c1 / 7c8aeda)"""
    rng = ctx.rng
    found = 0
    tried = 0
    # first the end-to-end oracle (typed programs through check + lowering, c03_hugr.py): it also sees what the compiler does
    # after the CFG builder (block wiring, unpacking assignments, order edges), which the untyped search below cannot
    try:
        sys.path.insert(0, os.path.dirname(os.path.abspath(__file__)))
        import c03_hugr

        if c03_hugr.search_hugr_exec(ctx, profile.pid):
            ctx.extra["search"] = {"why": [w[:200] for w in why][:3], "programs_tried": 0, "failing_inputs_found": 0,
                                   "found_by": "hugr_exec_search"}
            return
    except Exception as e:  # noqa: BLE001
        ctx.extra["hugr_exec_search_error"] = type(e).__name__ + ": " + str(e)[:200]
    for k in range(ctx.n(4000, 40000)):
        src, rn = gen_program(rng, profile.gen, small=(k % 4 != 0), d9=(k % 2 == 0))
        inputs = gen_inputs(rng, 3)
        tried += 1
        hit = _fails(src, rn, inputs, profile)
        if not hit:
            continue
        try:
            s2, rn2, in2 = shrink(src, rn, inputs, profile)
        except Exception:  # noqa: BLE001  (never lose a found failure to a shrinker problem)
            s2, rn2, in2 = src, rn, inputs
        res = eval_real(s2, rn2, in2, profile)
        if report_oracle(ctx, res, profile) or res["facts"]:
            found += 1
        if found >= 3:
            break
    ctx.extra["search"] = {"why": [w[:200] for w in why][:3], "programs_tried": tried, "failing_inputs_found": found}


# ============================================================================ development helper (no Lean)


class _FakeCtx:
    def __init__(self, seed=0, quick=True):
        import random

        self.rng = random.Random(seed)
        self.quick = quick
        self.extra, self.dist, self.viol, self.broken, self.evaluations = {}, {}, [], [], 0
        self.nontrivial = set()
        self.replay_in = None

    def n(self, q, t):
        return q if self.quick else t

    def count(self, case, nontrivial, kind=None):
        self.evaluations += 1
        self.dist[kind] = self.dist.get(kind, 0) + 1
        if nontrivial:
            self.nontrivial.add(json.dumps(case, sort_keys=True, default=str))

    def bump(self, kind, n=1):
        self.dist[kind] = self.dist.get(kind, 0) + n

    def violation(self, key, what, replay, found_input=True):
        self.viol.append((key, what, replay))

    def broke(self, name):
        self.broken.append(name)


def run_real_only(n=400, seed=0, profile=Profile, verbose=False):
    """generate n programs, run the real side and the oracle only"""
    ctx = _FakeCtx(seed)
    out = {"programs": 0, "disagree": [], "d9_shaped": 0, "status": {}, "facts": []}
    t0 = time.time()
    cases = load_corpus(profile) + [("gen", *gen_program(ctx.rng, profile.gen), None) for _ in range(n)]
    for name, src, rn, inputs in cases:
        inputs = inputs or gen_inputs(ctx.rng)
        res = eval_real(src, rn, inputs, profile, model=not name.startswith("corpus-oracle-only:"))
        out["programs"] += 1
        out["d9_shaped"] += bool(res["d9"])
        out["status"][res["status"]] = out["status"].get(res["status"], 0) + 1
        kind = shape_tag(res["feat"], res["unreachable"]) if res["status"] == "ok" else res["status"]
        for run in res["runs"] or [None]:
            ctx.count({"s": src, "rn": rn, "a": run and run["args"]}, profile.nontrivial(res["feat"]), kind)
        if res["facts"]:
            out["facts"].append((src, res["facts"]))
        for run in res["runs"]:
            if run["agree"] is False:
                out["disagree"].append((src, run["args"], run["py"].show(), run["cfg"].show(), res["d9"]))
                break
    out["dist"], out["evaluations"], out["nontrivial"] = ctx.dist, ctx.evaluations, len(ctx.nontrivial)
    out["wall_s"] = round(time.time() - t0, 2)
    return out


if __name__ == "__main__":
    vlib.main(sys.modules[__name__])
