"""C01 T-run correspondence: the Lean wiring model (Model/DFWiring.lean, driver C01) versus the real
`DFContainer.__getitem__/__setitem__` of /repo on the same generated place trees and scripts.

A case is (type tree, ret flag, script).  Type tree: ("L", c, d) leaf with Guppy's copyable /
droppable bits, ("S", [children]) struct, ("T", [children]) tuple.  Script ops:
("s", path, k)  -> dfg[sub-place at path] = k-th input wire;   ("g", path) -> dfg[sub-place].
The real side builds genuine `StructType`/`TupleType`s, `Variable`/`FieldAccess`/`TupleAccess`
places and a `DFContainer` over a hugr `Dfg` builder, runs the script and reads the emitted
MakeTuple/UnpackTuple nodes and their input links back from the Hugr.
"""
from __future__ import annotations

import itertools

_uid = itertools.count()


# ----------------------------------------------------------------------------- generation
LEAF_KINDS = [(1, 1), (0, 0), (0, 1)]  # copyable classical, linear (qubit), affine (array)


def gen_ty(rng, depth: int):
    if depth == 0 or rng.random() < 0.35:
        return ("L", *rng.choice(LEAF_KINDS + [(0, 0)]))
    k = rng.choice(["S", "T"])
    n = rng.choice([0, 1, 1, 2, 2, 2, 3, 3, 4])
    return (k, [gen_ty(rng, depth - 1) for _ in range(n)])


def paths(ty, pre=()):
    yield pre
    if ty[0] != "L":
        for i, c in enumerate(ty[1]):
            yield from paths(c, pre + (i,))


def ty_at(ty, path):
    for i in path:
        ty = ty[1][i]
    return ty


def leaves(ty, pre=()):
    if ty[0] == "L":
        yield pre, ty
    else:
        for i, c in enumerate(ty[1]):
            yield from leaves(c, pre + (i,))


def respects_ownership(case) -> bool:
    """Would Guppy's linearity checker allow this sequence of reads/writes?  A read of a place
    moves its non-copyable leaves; a read needs all its leaves assigned and not moved."""
    ty = case["ty"]
    state = {p: "undef" for p, _ in leaves(ty)}
    for op in case["script"]:
        under = [(p, t) for p, t in leaves(ty) if p[: len(op[1])] == op[1]]
        if op[0] == "s":
            for p, _ in under:
                state[p] = "ok"
        else:
            if any(state[p] != "ok" for p, _ in under):
                return False
            for p, t in under:
                if not t[1]:  # not copyable
                    state[p] = "moved"
    return True


def gen_case(rng):
    ty = gen_ty(rng, rng.choice([1, 2, 2, 3, 3]))
    if ty[0] == "L" and rng.random() < 0.8:
        ty = (rng.choice(["S", "T"]), [ty, gen_ty(rng, 2)])
    ret = 1 if rng.random() < 0.08 else 0
    # sub-places of a `%ret` variable are never addressed by the compiler (it is stored whole)
    ps = [()] if ret else list(paths(ty))
    legal = rng.random() < 0.7
    script = []
    k = 0
    n_ops = rng.randrange(1, 9)
    # usually start by storing the whole place
    if legal or rng.random() < 0.85:
        script.append(("s", (), k))
        k += 1
    for _ in range(n_ops):
        p = rng.choice(ps) if rng.random() < 0.7 else ()
        if rng.random() < 0.55:
            cand = ("g", p)
            if legal and not respects_ownership({"ty": ty, "script": script + [cand]}):
                # repair: re-assign what is missing (a moved/undefined leaf below p), then read
                st_case = {"ty": ty, "script": script}
                for lp, _ in leaves(ty):
                    if lp[: len(p)] == p and not respects_ownership({"ty": ty, "script": st_case["script"] + [("g", lp)]}):
                        q = () if ret else lp[: rng.randrange(len(p), len(lp) + 1)]
                        st_case["script"] = st_case["script"] + [("s", q, k)]
                        k += 1
                script = st_case["script"]
            script.append(cand)
        else:
            script.append(("s", p, k))
            k += 1
    return {"ty": ty, "ret": ret, "script": script}


def _ty_sexp(ty) -> str:
    if ty[0] == "L":
        return f"(L {ty[1]} {ty[2]})"
    return "(" + ty[0] + "".join(" " + _ty_sexp(c) for c in ty[1]) + ")"


def is_nontrivial(case) -> bool:
    """some get on a struct/tuple place after some set (so packing really happens)"""
    seen_set = False
    for op in case["script"]:
        if op[0] == "s":
            seen_set = True
        elif seen_set and ty_at(case["ty"], op[1])[0] != "L":
            return True
    return False


# ----------------------------------------------------------------------------- real side
class _Real:
    def __init__(self, case):
        import hugr.build.dfg as hd
        import hugr.build.function as hf
        from guppylang_internals.checker.core import FieldAccess, TupleAccess, Variable
        from guppylang_internals.compiler.core import CompilerContext, DFContainer
        from guppylang_internals.definition.common import DefId
        from guppylang_internals.definition.struct import CheckedStructDef, StructField
        from guppylang_internals.tys.builtin import array_type, int_type
        from guppylang_internals.tys.ty import StructType, TupleType
        from guppylang.std.quantum import qubit

        self.case = case
        qubit_ty = qubit.wrapped.check_instantiate([]) if hasattr(qubit, "wrapped") else None
        if qubit_ty is None:
            from guppylang_internals.engine import ENGINE
            qubit_ty = ENGINE.get_parsed(qubit.id).check_instantiate([])

        def build(ty):
            if ty[0] == "L":
                c, d = ty[1], ty[2]
                if c and d:
                    return int_type()
                if not c and not d:
                    return qubit_ty
                if not c and d:
                    return array_type(int_type(), 2)
                raise ValueError("no copyable non-droppable leaf type exists in Guppy")
            kids = [build(x) for x in ty[1]]
            if ty[0] == "T":
                return TupleType(kids)
            name = f"S{next(_uid)}"
            d = CheckedStructDef(DefId.fresh(), name, None, [], [StructField(f"f{i}", t) for i, t in enumerate(kids)])
            return StructType([], d)

        self.gty = build(case["ty"])
        root = Variable("%ret0" if case["ret"] else "x", self.gty, None)
        self.places = {}

        def mk(place, ty, path):
            self.places[path] = place
            if ty[0] == "S":
                for i, c in enumerate(ty[1]):
                    mk(FieldAccess(place, place.ty.fields[i], None), c, path + (i,))
            elif ty[0] == "T":
                for i, c in enumerate(ty[1]):
                    mk(TupleAccess(place, place.ty.element_types[i], i, None), c, path + (i,))

        mk(root, case["ty"], ())
        self.ctx = CompilerContext(hf.Module())
        in_tys = [self.places[op[1]].ty.to_hugr(self.ctx) for op in case["script"] if op[0] == "s"]
        self.b = hd.Dfg(*in_tys)
        self.h = self.b.hugr
        self.inputs = self.b.inputs()
        self.dfg = DFContainer(self.b, self.ctx)
        self.n0 = max(n.idx for n in self.h) + 1
        self.in_node = self.b.input_node.idx

    def _new_ops(self, before: set[int]) -> str:
        import hugr.ops as ops
        out = []
        for n in sorted((n for n in self.h if n.idx not in before), key=lambda n: n.idx):
            op = self.h[n].op
            ins = sorted(((ip.offset, outs) for ip, outs in self.h.incoming_links(n)), key=lambda x: x[0])
            srcs = []
            for _off, outs in ins:
                assert len(outs) == 1
                srcs.append(f"({outs[0].node.idx} {outs[0].offset})")
            if isinstance(op, ops.MakeTuple):
                assert len(srcs) == len(op.types)
                out.append(f"(M {n.idx}{''.join(' ' + s for s in srcs)})")
            elif isinstance(op, ops.UnpackTuple):
                out.append(f"(U {n.idx} {srcs[0]} {len(op.types)})")
            else:
                out.append(f"(? {type(op).__name__})")
        return "(" + " ".join(out) + ")"

    def _place_id_str(self, exc_place_str: str) -> str:
        return exc_place_str

    def run(self) -> str:
        from guppylang_internals.error import InternalGuppyError
        items = []
        k_wire = {}
        for op in self.case["script"]:
            before = {n.idx for n in self.h}
            place = self.places[op[1]]
            if op[0] == "s":
                w = self.inputs[op[2]]
                self.dfg[place] = w
                items.append(f"(s {self._new_ops(before)})")
            else:
                try:
                    w = self.dfg[place]
                except InternalGuppyError as e:
                    # "Couldn't obtain a port for `<place>`": recover which place
                    msg = str(e.args[0]) if e.args else str(e)
                    who = [p for p, pl in self.places.items() if f"`{pl}`" in msg and msg.endswith(f"`{pl}`")]
                    pid = "(" + " ".join(str(i) for i in (tuple(reversed(who[0])) + (0,))) + ")" if len(who) == 1 else "(?)"
                    items.append(f"(g err noPort {pid})")
                    return " ".join(items)
                except KeyError as e:
                    who = [p for p, pl in self.places.items() if pl.id == e.args[0]]
                    pid = "(" + " ".join(str(i) for i in (tuple(reversed(who[0])) + (0,))) + ")" if who else "(?)"
                    items.append(f"(g err keyError {pid})")
                    return " ".join(items)
                op_ = w.out_port()
                items.append(f"(g ok {op_.node.idx} {op_.offset} {self._new_ops(before)})")
        # locals dump over the places of the tree, in the model's order (root, then children l-to-r)
        loc = []
        ids = {}
        for path in paths(self.case["ty"]):
            pl = self.places[path]
            ids[pl.id] = path
            w = self.dfg.locals.get(pl.id)
            if w is None:
                loc.append("-")
            else:
                o = w.out_port()
                loc.append(f"({o.node.idx} {o.offset})")
        extra = [k for k in self.dfg.locals if k not in ids]
        if extra:
            loc.append(f"extra-keys:{len(extra)}")
        items.append("(loc " + " ".join(loc) + ")")
        return " ".join(items)

    def request(self) -> str:
        ops = []
        for op in self.case["script"]:
            path = "(" + " ".join(map(str, op[1])) + ")"
            if op[0] == "s":
                ops.append(f"(s {path} {self.in_node} {op[2]})")
            else:
                ops.append(f"(g {path})")
        return f"({self.n0} {_ty_sexp(self.case['ty'])} {self.case['ret']} ({' '.join(ops)}))"


def _rs_summary(case, rep: str, r: "_Real") -> str:
    """what `runScript` of the model must return for this script, read off the real run"""
    if case["ret"]:
        return "(rs -)"
    if " err " in rep:
        return "(rs err)"
    reads = []
    for it in rep.replace(") (s", ")\n(s").replace(") (g", ")\n(g").replace(") (loc", ")\n(loc").split("\n"):
        if it.startswith("(g ok "):
            t = it.split()
            reads.append(f"({t[2]} {t[3]})")
    n_ops = rep.count("(M ") + rep.count("(U ")
    nxt = max(n.idx for n in r.h) + 1
    return f"(rs {len(reads)} {nxt} {n_ops}{''.join(' ' + w for w in reads)})"


def real_run(case):
    """-> (request line for the model, canonical reply of the real DFContainer)"""
    r = _Real(case)
    req = r.request()
    try:
        rep = r.run()
        rep = rep + " " + _rs_summary(case, rep, r)
    except Exception as e:  # noqa: BLE001
        rep = f"exception:{type(e).__name__}:{e}"
    return req, rep, r


# ----------------------------------------------------------------------------- oracle
def _norm(v, ty):
    """eta-expand a symbolic value along the type tree"""
    if ty[0] == "L":
        return v
    n = len(ty[1])
    if v[0] == "tup" and len(v[1]) == n:
        return ("tup", tuple(_norm(x, c) for x, c in zip(v[1], ty[1])))
    return ("tup", tuple(_norm(("proj", v, i, n), c) for i, c in enumerate(ty[1])))


def oracle(case, r: "_Real", rep: str) -> list[str]:
    """The property read literally on the REAL run, no Lean model involved:
    (1) no non-copyable out-port of the built Hugr is consumed more than once;
    (2) every successful `dfg[place]` returns a wire whose value (symbolic evaluation of the
        real MakeTuple/UnpackTuple nodes read back from the Hugr) is what a plain reference
        store says the place holds after the preceding assignments."""
    import hugr.ops as ops
    import hugr.tys as ht
    h = r.h
    bad = []
    if not respects_ownership(case):
        return bad  # the linearity checker would have rejected such a program: nothing is promised
    if " err " in rep or rep.startswith("exception"):
        bad.append("lookup failed on a script that respects ownership: " + rep[-120:])
    for n in h:
        for o, ins in h.outgoing_links(n):
            if o.offset < 0:
                continue
            ty = h.port_type(o)
            if ty is not None and ty.type_bound() != ht.TypeBound.Copyable and len(ins) > 1:
                bad.append(f"non-copyable wire ({n.idx} {o.offset}) consumed {len(ins)} times")
    val = {}
    for k, w in enumerate(r.inputs):
        o = w.out_port()
        val[(o.node.idx, o.offset)] = ("in", k)
    for n in sorted(h, key=lambda n: n.idx):
        op = h[n].op
        ins = {ip.offset: outs[0] for ip, outs in h.incoming_links(n) if ip.offset >= 0 and outs}
        if isinstance(op, ops.UnpackTuple):
            v = val.get((ins[0].node.idx, ins[0].offset)) if 0 in ins else None
            if v is None:
                continue
            k = len(op.types)
            for i in range(k):
                val[(n.idx, i)] = v[1][i] if v[0] == "tup" and len(v[1]) == k else ("proj", v, i, k)
        elif isinstance(op, ops.MakeTuple):
            vs = [val.get((ins[i].node.idx, ins[i].offset)) if i in ins else None for i in range(len(op.types))]
            if all(v is not None for v in vs):
                val[(n.idx, 0)] = ("tup", tuple(vs))
    # reference store: the root's value as a tree with None = never assigned
    root_ty = case["ty"]

    def assign(tree, ty, path, v):
        if not path:
            return _norm(v, ty)
        kids = list(tree[1]) if tree is not None else [None] * len(ty[1])
        kids[path[0]] = assign(kids[path[0]], ty[1][path[0]], path[1:], v)
        return ("tup", tuple(kids))

    def lookup(tree, path):
        for i in path:
            if tree is None:
                return None
            tree = tree[1][i]
        return tree

    def fill(tree, ty):
        """None-free value tree, or None when some leaf was never assigned"""
        if ty[0] == "L":
            return tree
        kids = tree[1] if tree is not None else (None,) * len(ty[1])
        out = tuple(fill(k, c) for k, c in zip(kids, ty[1]))
        return None if any(x is None for x in out) else ("tup", out)

    tree = None
    items = [it for it in rep.replace(") (s", ")\n(s").replace(") (g", ")\n(g").replace(") (loc", ")\n(loc").split("\n")]
    for op, it in zip(case["script"], items):
        if op[0] == "s":
            tree = assign(tree, root_ty, op[1], ("in", op[2]))
        elif it.startswith("(g ok "):
            toks = it.split()
            w = (int(toks[2]), int(toks[3]))
            got = val.get(w)
            sub_ty = ty_at(root_ty, op[1])
            want = fill(lookup(tree, op[1]), sub_ty)
            if got is None:
                bad.append(f"get {op[1]} returned wire {w} with no evaluable value")
            elif want is None:
                bad.append(f"get {op[1]} succeeded although the place was never (fully) assigned")
            elif _norm(got, sub_ty) != want:
                bad.append(f"get {op[1]} returned a wire denoting {_norm(got, sub_ty)} but the place holds {want}")
    return bad
