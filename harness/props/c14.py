"""C14 — Copy/drop classification is structural and matches HUGR bounds."""
from __future__ import annotations

import json
import os
import sys

sys.path.insert(0, os.path.dirname(os.path.dirname(os.path.abspath(__file__))))
import vlib

PID = "C14"
THEOREM_MODULES = ["GuppyVerif.Props.C14"]
DRIVER = "C14"
RULE = (
    "random nested Guppy types built from the REAL classes (tuples of arity 0-3, 11 real @guppy.struct definitions "
    "incl. generic / nested-generic / phantom-parameter structs, array, frozenarray, Option, list, Either, Result, Future, "
    "SizedIter, function types, bound variables of every copy/drop bound in a random parameter context, a few existential "
    "variables); per type: real copyable/droppable/hugr_bound/to_hugr()/type_bound()/requires_drop vs the Lean model and vs an "
    "independent structural oracle; non-trivial = nesting depth >= 2 and contains a non-copyable or variable leaf; distinct by "
    "canonical S-expression.  Plus T-obj drop probes: small programs leaving a value unused, lowered by the real compiler."
)
ASSUMPTIONS = [
    "hugr package semantics (outside /repo): ExtType.type_bound = explicit bound or join of type-argument bounds (List, StaticArray), "
    "BorrowArray Linear, Sum = join of all variant elements, Variable = its bound, FunctionType Copyable, Qubit Linear; "
    "StaticArray() raises unless the element bound is Copyable",
    "the translator harness/props/c14.py::translate maps each OpaqueTypeDef.to_hugr function (by identity/name) to a model Shape and "
    "probes the produced hugr type for its qualified name and bound rule; the resulting whole-type agreement is re-checked by the "
    "same-input correspondence (full HUGR type structure compared)",
    "Model/CopyDrop.lean evaluates struct fields under an environment instead of instantiating them; Lemmas/C14.lean proves this "
    "equals Python's recursion over StructType.fields (flag_struct_eq / toHugr_struct_eq)",
]
UNMODELLED = [
    "behaviour of .copyable/.fields on ill-kinded argument lists (Python raises AssertionError from the Instantiator; short-circuit order)",
    "WasmModuleTypeDef / RNG (qsystem cannot be imported on the installed dependency stack)",
    "to_hugr under a monomorphizing CompilerContext (current_mono_args != None) — belongs to C13",
    "where the checker inserts implicit drops before lowering; insert_drops is observed only through the probes",
]
MANIFEST = {
    "level_text": "Lean theorems for all Guppy types (structural / derivation induction, no depth bound) over the type-definition table "
    "regenerated from /repo on every run: copyable/droppable obey the structural equations of the statement (tuple elements, "
    "instantiated struct fields, type arguments, intrinsic flags; qubit neither, arrays never copyable, numbers/bool/str/None/functions both); "
    "Type.hugr_bound = Copyable iff copyable; copyable implies the lowered HUGR type is Copyable and needs no drop; a HUGR-linear "
    "droppable type always requires a drop; the converse directions (`bound_iff_copyable`, `affine_requires_drop`) are proved under an "
    "explicit no-phantom-parameter hypothesis and refuted without it by a concrete witness (struct with an unused type parameter), which "
    "is replayed on the real code as a known finding.  Model tied to /repo by T-src table regeneration + same-input correspondence on "
    "random nested types from the real classes (full HUGR type structure compared) + lowering probes for drop insertion.",
    "level_note": "Trusted: Lean kernel + propext/Classical.choice/Quot.sound; my statement; the assumed hugr-package bound semantics; the "
    "translator and generators (sampling).  Phantom struct parameters make the literal iff false (harmless direction): known finding.",
    "technique": "Lean 4 proof over a hand-written model with a regenerated definition table + differential correspondence + lowering probes",
    "design_ref": "DESIGN.md §5 C14",
    "ready": True,
}

GEN_PATH = os.path.join(vlib.LEAN, "GuppyVerif", "Gen", "C14TypeDefs.lean")


# ----------------------------------------------------------------------------- hugr type description
def _qual(td):
    from guppylang_internals.compiler.core import qualified_name
    return qualified_name(td)


def _bnd(b):
    from hugr import tys as ht
    return "C" if b == ht.TypeBound.Copyable else "L"


def h_sexp(h) -> str:
    """canonical S-expression of a real hugr type (same syntax as CopyDrop.showH)"""
    from hugr import tys as ht
    if isinstance(h, ht.ExtType):
        parts = []
        for a in h.args:
            if isinstance(a, ht.TypeTypeArg):
                parts.append("(t " + h_sexp(a.ty) + ")")
            elif isinstance(a, ht.BoundedNatArg):
                parts.append(f"(n {a.n})")
            elif isinstance(a, ht.VariableArg):
                parts.append(f"(nv {a.idx})")
            else:
                parts.append("(other-arg " + type(a).__name__ + ")")
        return "(ext " + _qual(h.type_def) + "".join(" " + p for p in parts) + ")"
    if isinstance(h, ht.Sum):
        return "(sum" + "".join(" (" + " ".join(h_sexp(t) for t in row) + ")" for row in h.variant_rows) + ")"
    if isinstance(h, ht.Variable):
        return f"(var {h.idx} {_bnd(h.bound)})"
    if isinstance(h, ht.FunctionType):
        return "(func (" + " ".join(h_sexp(t) for t in h.input) + ") (" + " ".join(h_sexp(t) for t in h.output) + "))"
    if type(h).__name__ == "_QubitDef":
        return "qubit"
    return "(other-type " + type(h).__name__ + ")"


def _ext_rule(h) -> str:
    """Lean term for the ExtRule of a real ExtType instance"""
    from hugr import tys as ht
    from hugr.ext import ExplicitBound, FromParamsBound
    cls = type(h)
    if cls.type_bound is not ht.ExtType.type_bound:
        # subclass override: determine behaviour by name of the known std classes, else by probing
        n = cls.__name__
        if n == "BorrowArray" or n == "Array":
            return ".explicit .linear" if _bnd(h.type_bound()) == "L" else ".explicit .copyable"
        if n in ("List", "StaticArray"):
            return ".joinArgs"
        return "UNKNOWN_RULE"
    b = h.type_def.bound
    if isinstance(b, ExplicitBound):
        return ".explicit .copyable" if _bnd(b.bound) == "C" else ".explicit .linear"
    if isinstance(b, FromParamsBound):
        ty_idx = [i for i, p in enumerate(h.type_def.params) if isinstance(p, ht.TypeTypeParam)]
        return ".joinArgs" if sorted(b.indices) == ty_idx else "UNKNOWN_RULE"
    return "UNKNOWN_RULE"


def _h_lean(h) -> str:
    """Lean term of type HTy for a closed real hugr type (static shapes)"""
    from hugr import tys as ht
    if isinstance(h, ht.ExtType):
        args = []
        for a in h.args:
            if isinstance(a, ht.TypeTypeArg):
                args.append(f".ty ({_h_lean(a.ty)})")
            elif isinstance(a, ht.BoundedNatArg):
                args.append(f".nat {a.n}")
            else:
                return "UNKNOWN_HTY"
        return f'.ext "{_qual(h.type_def)}" ({_ext_rule(h)}) [{", ".join(args)}]'
    if isinstance(h, ht.Sum):
        rows = ", ".join(".mk [" + ", ".join(_h_lean(t) for t in row) + "]" for row in h.variant_rows)
        return f".sum [{rows}]"
    if type(h).__name__ == "_QubitDef":
        return ".qubit"
    return "UNKNOWN_HTY"


def _cctx():
    import hugr.build.function as hf
    from guppylang_internals.compiler.core import CompilerContext
    return CompilerContext(hf.Module())


def _shape_of(d) -> str:
    """map the definition's to_hugr function to a model Shape (Lean term); `.unknown` if not recognised"""
    from guppylang_internals.tys import builtin as B
    from guppylang_internals.tys.arg import ConstArg, TypeArg
    from guppylang_internals.tys.const import ConstValue
    fn = d.to_hugr
    name = getattr(fn, "__name__", "?")
    ctx = _cctx()
    int_a = TypeArg(B.int_type())
    n2 = ConstArg(ConstValue(B.nat_type(), 2))

    def probe(args):
        try:
            return fn(args, ctx)
        except Exception:  # noqa: BLE001
            return None

    if name == "<lambda>":
        if d.params:
            return ".unknown"
        h = probe([])
        if h is None:
            return ".unknown"
        t = _h_lean(h)
        return ".unknown" if "UNKNOWN" in t else f".static ({t})"
    table = {
        "_list_to_hugr": ("listOpt", [int_a]),
        "_array_to_hugr": ("array", [int_a, n2]),
        "_frozenarray_to_hugr": ("staticArray", [int_a, n2]),
        "future_to_hugr": ("ext1", [int_a]),
    }
    if name in table:
        ctor, args = table[name]
        h = probe(args)
        from hugr import tys as ht
        if not isinstance(h, ht.ExtType):
            return ".unknown"
        rule = _ext_rule(h)
        if "UNKNOWN" in rule:
            return ".unknown"
        return f'.{ctor} "{_qual(h.type_def)}" ({rule})'
    simple = {"_sized_iter_to_hugr": "underlying", "_option_to_hugr": "option", "either_to_hugr": "either"}
    if name in simple:
        return "." + simple[name]
    return ".unknown"


def _pkind(p) -> str:
    from guppylang_internals.tys.param import TypeParam
    if isinstance(p, TypeParam):
        return f".ty {str(p.must_be_copyable).lower()} {str(p.must_be_droppable).lower()}"
    return ".const"


def translate(ctx):
    """T-src: regenerate Gen/C14TypeDefs.lean from the imported definition objects"""
    import tysexp
    from guppylang_internals.compiler import core
    env = tysexp.env()
    rows = []
    for name in sorted(env.opaques):
        d = env.opaques[name]
        bound = "none" if d.bound is None else ("some .copyable" if _bnd(d.bound) == "C" else "some .linear")
        rows.append(
            f'  {{ name := "{name}", neverCopyable := {str(bool(d.never_copyable)).lower()}, '
            f"neverDroppable := {str(bool(d.never_droppable)).lower()}, bound := {bound},\n"
            f"    params := [{', '.join(_pkind(p) for p in d.params)}], shape := {_shape_of(d)} }}"
        )
    aff = ", ".join(f'"{s}"' for s in core.AFFINE_EXTENSION_TYS)
    src = (
        "import GuppyVerif.Model.CopyDrop\n"
        "/-! GENERATED by harness/props/c14.py::translate from the imported `tys.builtin` objects, the std-library\n"
        "    `@custom_type` definitions and `compiler.core.AFFINE_EXTENSION_TYS`.  Do not edit. -/\n"
        "namespace GuppyVerif.CopyDrop.Gen\n\n"
        f"def affineExtTys : List String := [{aff}]\n\n"
        "def typeDefs : List OpaqueDef := [\n" + ",\n".join(rows) + "\n]\n\n"
        "end GuppyVerif.CopyDrop.Gen\n"
    )
    old = open(GEN_PATH).read() if os.path.exists(GEN_PATH) else None
    if old != src:
        os.makedirs(os.path.dirname(GEN_PATH), exist_ok=True)
        with open(GEN_PATH, "w") as f:
            f.write(src)
    ctx.extra["typedef_rows"] = len(rows)
    ctx.extra["gen_changed_vs_baseline"] = old is not None and old != src


# ----------------------------------------------------------------------------- real / oracle
def _real(t) -> str:
    from guppylang_internals.compiler.core import requires_drop
    try:
        cp, dr = t.copyable, t.droppable
    except Exception as e:  # noqa: BLE001
        return "exception:" + type(e).__name__
    try:
        hb = _bnd(t.hugr_bound)
    except Exception:  # noqa: BLE001
        hb = "err"
    try:
        h = t.to_hugr(_cctx())
        tb, rd, hs = _bnd(h.type_bound()), ("1" if requires_drop(h) else "0"), h_sexp(h)
    except Exception:  # noqa: BLE001
        tb, rd, hs = "-", "-", "err"
    return f"cp={int(cp)} dr={int(dr)} hb={hb} tb={tb} rd={rd} h={hs}"


def _parse_reply(r: str) -> dict:
    out = {}
    for part in r.split(" ", 5):
        if "=" in part:
            k, v = part.split("=", 1)
            out[k] = v
    return out


class Oracle:
    """Independent structural recomputation, following the statement's rules; works on the real objects
    but never calls copyable/droppable/hugr_bound/fields/Instantiator of /repo."""

    LINEAR = {"qubit", "Future"}            # neither copyable nor droppable
    NEVER_COPY = {"array"}                   # never copyable, droppable iff its type arguments are
    PLAIN = {"bool", "str", "list", "frozenarray", "SizedIter", "Option", "Either", "Result"}

    def subst(self, t, args):
        """own substitution of bound variables 0..len(args)-1 by args (struct field instantiation)"""
        from guppylang_internals.tys import ty as T
        from guppylang_internals.tys.arg import ConstArg, TypeArg
        from guppylang_internals.tys.const import BoundConstVar
        n = len(args)
        if isinstance(t, T.BoundTypeVar):
            if t.idx < n:
                return args[t.idx].ty
            return T.BoundTypeVar(t.display_name, t.idx - n, t.copyable, t.droppable)
        if isinstance(t, T.TupleType):
            return T.TupleType([self.subst(e, args) for e in t.element_types], t.preserve)
        if isinstance(t, T.FunctionType):
            return T.FunctionType([T.FuncInput(self.subst(i.ty, args), i.flags) for i in t.inputs],
                                  self.subst(t.output, args))
        if isinstance(t, (T.OpaqueType, T.StructType)):
            new = []
            for a in t.args:
                if isinstance(a, TypeArg):
                    new.append(TypeArg(self.subst(a.ty, args)))
                elif isinstance(a.const, BoundConstVar):
                    c = a.const
                    new.append(args[c.idx] if c.idx < n else ConstArg(BoundConstVar(c.ty, c.display_name, c.idx - n)))
                else:
                    new.append(a)
            return type(t)(new, t.defn)
        return t

    def fields(self, t):
        return [self.subst(f.ty, list(t.args)) for f in t.defn.fields]

    def flag(self, t, copy: bool, core: bool = False) -> bool:
        """copy=True: copyable, else droppable.  core=True ignores struct type arguments (fields only)."""
        from guppylang_internals.tys import ty as T
        from guppylang_internals.tys.arg import TypeArg
        if isinstance(t, (T.NumericType, T.NoneType, T.FunctionType)):
            return True
        if isinstance(t, (T.BoundTypeVar, T.ExistentialTypeVar)):
            return t.copyable if copy else t.droppable
        if isinstance(t, T.TupleType):
            return all(self.flag(e, copy, core) for e in t.element_types)
        targs = [a.ty for a in t.args if isinstance(a, TypeArg)]
        if isinstance(t, T.StructType):
            ok = all(self.flag(f, copy, core) for f in self.fields(t))
            return ok if core else ok and all(self.flag(a, copy, core) for a in targs)
        name = t.defn.name
        if name in self.LINEAR:
            return False
        if name in self.NEVER_COPY and copy:
            return False
        if name in self.PLAIN or name in self.NEVER_COPY:
            return all(self.flag(a, copy, core) for a in targs)
        raise KeyError(name)


def _children(t, orc):
    from guppylang_internals.tys import ty as T
    from guppylang_internals.tys.arg import TypeArg
    if isinstance(t, T.TupleType):
        return list(t.element_types)
    if isinstance(t, T.StructType):
        return [a.ty for a in t.args if isinstance(a, TypeArg)] + orc.fields(t)
    if isinstance(t, T.OpaqueType):
        return [a.ty for a in t.args if isinstance(a, TypeArg)]
    if isinstance(t, T.FunctionType):
        return [i.ty for i in t.inputs] + [t.output]
    return []


def _shrink(t, fails, orc):
    """minimise a failing type: descend into failing children, then simplify arguments / drop tuple elements"""
    import tysexp
    from guppylang_internals.tys import builtin as B
    from guppylang_internals.tys import ty as T
    from guppylang_internals.tys.arg import ConstArg, TypeArg
    from guppylang_internals.tys.const import ConstValue
    env = tysexp.env()
    for _ in range(50):
        for c in _children(t, orc):
            if fails(c):
                t = c
                break
        else:
            break
    cands = [B.int_type(), T.OpaqueType([], env.opaques["qubit"]), B.array_type(B.int_type(), 0)]
    if isinstance(t, T.TupleType):
        els = list(t.element_types)
        i = 0
        while i < len(els):
            cand = T.TupleType(els[:i] + els[i + 1:])
            if fails(cand):
                els = els[:i] + els[i + 1:]
            else:
                i += 1
        t = T.TupleType(els)
    if isinstance(t, (T.StructType, T.OpaqueType)):
        args = list(t.args)
        for i, a in enumerate(args):
            if isinstance(a, TypeArg):
                for c in cands:
                    trial = args[:i] + [TypeArg(c)] + args[i + 1:]
                    if fails(type(t)(trial, t.defn)):
                        args = trial
                        break
            else:
                trial = args[:i] + [ConstArg(ConstValue(B.nat_type(), 0))] + args[i + 1:]
                if fails(type(t)(trial, t.defn)):
                    args = trial
        t = type(t)(args, t.defn)
    return t


# ----------------------------------------------------------------------------- cases
def _depth(t, orc) -> int:
    cs = _children(t, orc)
    return 0 if not cs else 1 + max(_depth(c, orc) for c in cs)


def _has_interesting_leaf(t, orc) -> bool:
    from guppylang_internals.tys import ty as T
    if isinstance(t, (T.BoundTypeVar, T.ExistentialTypeVar)):
        return True
    cs = _children(t, orc)
    if not cs:
        try:
            return not t.copyable
        except Exception:  # noqa: BLE001
            return True
    return any(_has_interesting_leaf(c, orc) for c in cs)


def _fixed_cases():
    """hand-picked boundary types (also the defect witnesses); names → real types"""
    import tysexp
    from guppylang_internals.tys import builtin as B
    from guppylang_internals.tys import ty as T
    from guppylang_internals.tys.arg import ConstArg, TypeArg
    from guppylang_internals.tys.const import BoundConstVar, ConstValue, ExistentialConstVar
    env = tysexp.env()
    q = T.OpaqueType([], env.opaques["qubit"])
    n = lambda v: ConstArg(ConstValue(B.nat_type(), v))  # noqa: E731
    S = lambda name, *a: T.StructType(list(a), env.structs[name])  # noqa: E731
    O = lambda name, *a: T.OpaqueType(list(a), env.opaques[name])  # noqa: E731
    ta = TypeArg
    arr3 = B.array_type(B.int_type(), 3)
    out = {
        "phantom_linear": S("Ph", ta(q), n(7)),
        "phantom_affine": S("Ph", ta(arr3), n(7)),
        "phantom_nested": S("N2", ta(arr3), n(2)),
        "frozenarray_qubit": B.frozenarray_type(q, 2),
        "frozenarray_int": B.frozenarray_type(B.int_type(), 2),
        "list_qubit": B.list_type(q),
        "list_array": B.list_type(arr3),
        "option_array": B.option_type(arr3),
        "array_array_q": B.array_type(B.array_type(q, 2), 3),
        "either_rows": O("Either", ta(T.TupleType([B.int_type(), arr3])), ta(T.NoneType())),
        "either_preserved": O("Either", ta(T.TupleType([B.int_type()], preserve=True)), ta(T.NoneType(preserve=True))),
        "g3_tuple_arg": S("G3", ta(T.TupleType([B.int_type(), q])), ta(T.NoneType())),
        "n1": S("N1", ta(arr3), ta(B.bool_type())),
        "n2_var": S("N2", ta(T.BoundTypeVar("A", 0, False, True)), ConstArg(BoundConstVar(B.nat_type(), "m", 1))),
        "array_intvar_len": B.array_type(B.int_type(), BoundConstVar(B.int_type(), "k", 0)),
        "array_int_len": B.array_type(B.int_type(), ConstValue(B.int_type(), 3)),
        "array_evar_len": B.array_type(B.int_type(), ExistentialConstVar(B.nat_type(), "n", 77)),
        "tuple_evar": T.TupleType([T.ExistentialTypeVar("T", 5, False, True), B.int_type()]),
        "ph_evar": S("Ph", ta(T.ExistentialTypeVar("T", 6, True, True)), n(1)),
        "func_inout": T.FunctionType([T.FuncInput(arr3, T.InputFlags.Inout), T.FuncInput(q, T.InputFlags.Owned),
                                      T.FuncInput(B.int_type(), T.InputFlags.Comptime)], T.TupleType([arr3, B.int_type()])),
        "func_generic": T.FunctionType([T.FuncInput(T.BoundTypeVar("T", 0, False, False), T.InputFlags.Inout)],
                                       T.NoneType(), [__import__("guppylang_internals.tys.param", fromlist=["TypeParam"]).TypeParam(0, "T", False, False)]),
        "sized_iter_arr": O("SizedIter", ta(arr3), n(3)),
        "future_int": O("Future", ta(B.int_type())),
        "var_copy_nodrop": T.TupleType([T.BoundTypeVar("T", 0, True, False)]),
        "fz": S("Fz", ta(B.int_type()), n(4)),
    }
    return out


def _types_from_annotations(items):
    """real types from annotation strings (corpus / replay): parsed by the REAL type parser through the
    signature of `def p<generics>(x: <annotation>) -> None`"""
    import feed
    import tysexp
    from guppylang_internals.engine import ENGINE
    tysexp.env()  # the struct definitions live in module _verif_tyenv
    out = []
    for i, it in enumerate(items):
        ann, gen = it["annotation"], it.get("generics", "")
        src = f"@guppy.declare\ndef p{gen}(x: {ann}) -> None: ...\n"
        try:
            m = feed.load(src, prelude=feed.PRELUDE + PROBE_PRELUDE)
            out.append((f"corpus:{ann}", ENGINE.get_parsed(m.p.id).ty.inputs[0].ty))
        except Exception:  # noqa: BLE001
            continue
    return out


def _corpus_items(ctx):
    items = []
    d = os.path.join(vlib.VERIF, "corpus", "c14")
    if os.path.isdir(d):
        for fn in sorted(os.listdir(d)):
            if fn.endswith(".json"):
                items += json.load(open(os.path.join(d, fn)))["types"]
    if ctx.replay_in:
        r = ctx.replay_in.get("replay", {})
        for k in ("witness", "type", "annotation"):
            if isinstance(r.get(k), str):
                items.append({"annotation": r[k]})
    return items


def _cases(ctx):
    import tysexp
    rng = ctx.rng
    cases = _types_from_annotations(_corpus_items(ctx))
    ctx.extra["corpus_types"] = len(cases)
    cases += [(f"fixed:{k}", t) for k, t in _fixed_cases().items()]
    n = ctx.n(1500, 60000)
    for i in range(n):
        g0 = tysexp.TyGen(rng)
        params = g0.gen_params(rng.choice([0, 0, 1, 2, 3]), dependent=False, comptime=False)
        g = tysexp.TyGen(rng, params, kinded=True, evars=rng.random() < 0.15)
        cases.append((f"rand:{i}", g.gen(rng.choice([2, 3, 3, 4, 4]))))
    return cases


KF_WHAT = {
    "bound": "struct with a phantom (unused) type parameter: Guppy type is not copyable (a type argument is not) but its HUGR type "
             "(the tuple of the fields) is Copyable — `HUGR type copyable iff Guppy type copyable` fails in the harmless direction",
    "drop": "struct with a phantom (unused) type parameter instantiated with an affine type is affine (droppable, not copyable) but its "
            "HUGR type is Copyable, so requires_drop is False and no drop op is inserted (harmless: the HUGR value is discardable)",
}


def tie(ctx):
    import tysexp
    orc = Oracle()
    cases = _cases(ctx)
    lines, keep = [], []
    for name, t in cases:
        try:
            s = tysexp.ty_sexp(t)
        except Exception as e:  # noqa: BLE001
            raise vlib.Infra(f"cannot serialise {name}: {e!r}") from e
        lines.append("all " + s)
        keep.append((name, t, s))
    # struct field instantiation (Ty.structFields vs StructType.fields)
    from guppylang_internals.tys import ty as T
    flines, fkeep = [], []
    for name, t, s in keep:
        if isinstance(t, T.StructType) and len(flines) < ctx.n(400, 8000):
            flines.append("fields " + s)
            fkeep.append((name, t, s))
    replies = ctx.driver(DRIVER, lines + flines)
    model_all, model_fields = replies[: len(lines)], replies[len(lines):]

    for (name, t, s), m in zip(keep, model_all):
        real = _real(t)
        r = _parse_reply(real)
        nontriv = _depth(t, orc) >= 2 and _has_interesting_leaf(t, orc)
        ctx.count(s, nontrivial=nontriv, kind=f"cp={r.get('cp')} dr={r.get('dr')} tb={r.get('tb')} rd={r.get('rd')}")
        if real != m:
            ctx.broke(f"correspondence Model/CopyDrop.lean vs real classes on `{str(t)}` [{name}] (real: {real[:160]} | model: {m[:160]})")
        if real.startswith("exception"):
            continue
        # ---- property oracle on the REAL outputs
        ocp, odr = orc.flag(t, True), orc.flag(t, False)

        def viol(kind, what, fails):
            w = _shrink(t, fails, orc)
            key = f"{kind}:{str(w)}"
            ctx.violation(key, f"{what} — minimal witness `{str(w)}` (from `{str(t)}`)",
                          {"case": name, "type": str(t), "type_sexp": s, "witness": str(w),
                           "witness_sexp": tysexp.ty_sexp(w), "real": real, "oracle_cp": ocp, "oracle_dr": odr})

        if r["cp"] != str(int(ocp)):
            viol("copyable", "Type.copyable differs from the structural rule",
                 lambda x: _safe(lambda: x.copyable != orc.flag(x, True)))
        if r["dr"] != str(int(odr)):
            viol("droppable", "Type.droppable differs from the structural rule",
                 lambda x: _safe(lambda: x.droppable != orc.flag(x, False)))
        if r["hb"] != "err" and (r["hb"] == "C") != ocp:
            viol("hugr_bound", "Type.hugr_bound is Copyable iff copyable fails",
                 lambda x: _safe(lambda: (_bnd(x.hugr_bound) == "C") != orc.flag(x, True)))
        if r["tb"] != "-":
            if (r["tb"] == "C") != ocp:
                viol("bound", "HUGR type is Copyable iff the Guppy type is copyable fails",
                     lambda x: _safe(lambda: (_bnd(x.to_hugr(_cctx()).type_bound()) == "C") != orc.flag(x, True)))
            if odr and not ocp and r["rd"] != "1":
                viol("drop", "affine type (droppable, not copyable) whose HUGR type does not require a drop",
                     lambda x: _safe(lambda: orc.flag(x, False) and not orc.flag(x, True) and not _rd(x)))
            if ocp and r["rd"] != "0":
                viol("nodrop", "copyable type whose HUGR type requires a drop",
                     lambda x: _safe(lambda: orc.flag(x, True) and _rd(x)))

    for (name, t, s), m in zip(fkeep, model_fields):
        try:
            real = "(" + " ".join(tysexp.ty_sexp(f.ty) for f in t.fields) + ")"
        except Exception:  # noqa: BLE001
            real = "err"
        try:
            o = "(" + " ".join(tysexp.ty_sexp(f) for f in orc.fields(t)) + ")"
        except Exception:  # noqa: BLE001
            o = "err"
        ctx.bump("fields")
        if real != m:
            ctx.broke(f"correspondence Ty.structFields vs StructType.fields on `{str(t)}` (real {real[:120]} model {m[:120]})")
        if real != o and real != "err" and o != "err":
            ctx.violation("fields:" + s, f"StructType.fields of `{str(t)}` is not the definition's fields with the arguments substituted",
                          {"type": str(t), "type_sexp": s, "real": real, "oracle": o})
    probes(ctx)


def search(ctx, why):
    """Something no longer checks (theorem build or correspondence) and the tie found no concrete failing
    input: look harder (more and deeper random types against the structural oracle on the REAL code); if
    still nothing, report the break itself (vlib would otherwise stay silent when only known findings
    were reproduced)."""
    import tysexp
    orc = Oracle()
    rng = ctx.rng
    for i in range(ctx.n(3000, 20000)):
        g0 = tysexp.TyGen(rng)
        params = g0.gen_params(rng.choice([0, 1, 2]), dependent=False, comptime=False)
        t = tysexp.TyGen(rng, params, kinded=True).gen(rng.choice([2, 3, 4, 5]))
        try:
            bad = None
            if t.copyable != orc.flag(t, True):
                bad = ("copyable", lambda x: _safe(lambda: x.copyable != orc.flag(x, True)))
            elif t.droppable != orc.flag(t, False):
                bad = ("droppable", lambda x: _safe(lambda: x.droppable != orc.flag(x, False)))
            else:
                h = t.to_hugr(_cctx())
                cp, dr = orc.flag(t, True), orc.flag(t, False)
                if (_bnd(h.type_bound()) == "C") != cp:
                    bad = ("bound", lambda x: _safe(lambda: (_bnd(x.to_hugr(_cctx()).type_bound()) == "C") != orc.flag(x, True)))
                elif dr and not cp and not _rd(t):
                    bad = ("drop", lambda x: _safe(lambda: orc.flag(x, False) and not orc.flag(x, True) and not _rd(x)))
                elif cp and _rd(t):
                    bad = ("nodrop", lambda x: _safe(lambda: orc.flag(x, True) and _rd(x)))
        except Exception:  # noqa: BLE001
            continue
        if bad:
            w = _shrink(t, bad[1], orc)
            ctx.violation(f"{bad[0]}:{str(w)}", f"search after `{why[0][:80]}`: {bad[0]} rule fails — minimal witness `{str(w)}`",
                          {"type": str(t), "witness": str(w), "witness_sexp": tysexp.ty_sexp(w)})
    if not any(v["found"] for v in ctx.violations):
        ctx.violation("broken:" + "|".join(why)[:300],
                      "proof obligation or correspondence no longer checks: " + "; ".join(why)[:1500],
                      {"broken": why, "build_log_tail": ctx.build_log[-3000:] if not ctx.build_ok else ""},
                      found_input=False)


def _safe(f):
    try:
        return bool(f())
    except Exception:  # noqa: BLE001
        return False


def _rd(x):
    from guppylang_internals.compiler.core import requires_drop
    return requires_drop(x.to_hugr(_cctx()))


# ----------------------------------------------------------------------------- T-obj drop probes
PROBE_PRELUDE = (
    "from guppylang.std.option import Option\nfrom guppylang.std.either import Either\n"
    "from guppylang.std.err import Result\nfrom guppylang.std.iter import SizedIter\n"
    "from guppylang.std.futures import Future\nfrom guppylang.std.quantum import qubit\n"
    "from _verif_tyenv import *\n"
)
FIXED_PROBES = [
    # (generic header, annotation, owned?)
    ("", "array[int, 3]", True), ("", "Option[array[int, 2]]", True), ("", "tuple[int, array[int, 2]]", True),
    ("", "Pa", True), ("", "G1[array[int, 2]]", True), ("", "Ph[array[int, 2], 1]", True),
    ("", "array[array[int, 2], 2]", True), ("", "Either[array[int, 1], int]", True),
    ("", "tuple[tuple[array[int, 1], int], Pa]", True), ("", "N1[array[int, 1], bool]", True),
    ("", "SizedIter[array[int, 2], 2]", True), ("", "G3[array[int, 1], int]", True),
    ("", "int", False), ("", "tuple[int, bool]", False), ("", "P0", False), ("", "Option[int]", False),
    ("[T: Drop]", "T", True), ("[T: Drop]", "tuple[T, Option[T]]", True), ("[T: (Copy, Drop)]", "T", False),
    ("[T: Drop, n: nat]", "array[T, n]", True), ("[T: Drop]", "G1[T]", True),
]


def _leaves(t, orc):
    """the compiler unpacks tuple / struct values into their components (places)"""
    from guppylang_internals.tys import ty as T
    if isinstance(t, T.TupleType):
        return [l for e in t.element_types for l in _leaves(e, orc)]
    if isinstance(t, T.StructType):
        return [l for f in orc.fields(t) for l in _leaves(f, orc)]
    return [t]


def probes(ctx):
    """T-obj: `def p(x: <ty> @owned) -> None: pass` leaves x unused; the lowered Hugr must contain a drop op
    exactly for the affine components (model: requiresDrop (toHugr leaf); oracle: droppable and not copyable)."""
    import feed
    import tysexp
    from guppylang_internals.engine import ENGINE
    from hugr import tys as ht
    rng = ctx.rng
    orc = Oracle()
    specs = list(FIXED_PROBES)
    g = tysexp.TyGen(rng, (), kinded=True, functions=False, lists=False)
    want = ctx.n(25, 300)
    tries = 0
    while len(specs) < len(FIXED_PROBES) + want and tries < want * 20:
        tries += 1
        t = g.gen(rng.choice([1, 2, 2, 3]), need_drop=True)
        if not orc.flag(t, False):
            continue
        owned = not orc.flag(t, True)
        if not owned and rng.random() < 0.8:
            continue  # mostly affine types
        specs.append(("", str(t), owned))
    src = ""
    for i, (hdr, ann, owned) in enumerate(specs):
        src += f"@guppy\ndef p{i}{hdr}(x: {ann}{' @owned' if owned else ''}) -> None:\n    pass\n\n"
    try:
        m = feed.load(src, prelude=feed.PRELUDE + PROBE_PRELUDE)
    except Exception as e:  # noqa: BLE001
        raise vlib.Infra(f"probe module does not load: {e!r}") from e
    rows = []
    for i, (hdr, ann, owned) in enumerate(specs):
        d = getattr(m, f"p{i}")
        try:
            hg = feed.lower(d)
            ty = ENGINE.get_parsed(d.id).ty.inputs[0].ty
        except Exception as e:  # noqa: BLE001
            rows.append((i, ann, None, "exception:" + type(e).__name__, []))
            continue
        drops = []
        for node in hg.hugr:
            op = hg.hugr[node].op
            if feed.op_name(op).endswith("guppy.drop"):
                targs = [a.ty for a in getattr(op, "args", []) if isinstance(a, ht.TypeTypeArg)]
                drops.append(h_sexp(targs[0]) if targs else "?")
        rows.append((i, ann, ty, "ok", sorted(drops)))
    # model predictions for all leaves
    lines, owner = [], []
    for i, ann, ty, st, drops in rows:
        if ty is None:
            continue
        for l in _leaves(ty, orc):
            lines.append("all " + tysexp.ty_sexp(l))
            owner.append((i, l))
    replies = ctx.driver(DRIVER, lines) if lines else []
    model_pred, orc_pred = {}, {}
    for (i, l), rep in zip(owner, replies):
        r = _parse_reply(rep)
        if r.get("rd") == "1":
            model_pred.setdefault(i, []).append(r["h"])
        if orc.flag(l, False) and not orc.flag(l, True):
            orc_pred.setdefault(i, []).append(l)
    for i, ann, ty, st, drops in rows:
        ctx.count({"probe": ann}, nontrivial=bool(drops), kind="probe:" + (st if st != "ok" else f"drops={len(drops)}"))
        if ty is None:
            ctx.violation(f"probe-lower:{ann}", f"probe `def p(x: {ann})` does not check/lower: {st}",
                          {"annotation": ann, "status": st})
            continue
        mp = sorted(model_pred.get(i, []))
        if drops != mp:
            ctx.broke(f"drop probe `{ann}`: drop ops in the lowered Hugr {drops} differ from model prediction {mp}")
        # oracle: one drop per affine leaf, of that leaf's HUGR type
        op_leaves = orc_pred.get(i, [])
        try:
            op = sorted(h_sexp(l.to_hugr(_cctx())) for l in op_leaves)
        except Exception:  # noqa: BLE001
            op = None
        if op is not None and drops != op:
            explained = False
            for l in op_leaves:
                if _safe(lambda: not _rd(l)):
                    explained = True
                    w = _shrink(l, lambda x: _safe(lambda: orc.flag(x, False) and not orc.flag(x, True) and not _rd(x)), orc)
                    ctx.violation(f"drop:{str(w)}", f"unused value of affine type `{str(l)}` receives no drop op (probe `{ann}`) — minimal witness `{str(w)}`",
                                  {"annotation": ann, "drops_found": drops, "drops_expected": op, "witness": str(w)})
            if not explained:
                ctx.violation(f"drop-probe:{ann}", f"probe `def p(x: {ann} @owned) -> None: pass`: drop ops found {drops}, expected {op}",
                              {"annotation": ann, "drops_found": drops, "drops_expected": op, "source": f"def p(x: {ann}{' @owned' if specs[i][2] else ''}) -> None: pass"})


if __name__ == "__main__":
    vlib.main(sys.modules[__name__])
