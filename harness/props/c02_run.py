"""C02: run one program (a whole module text) through the REAL checker + lowering and classify the outcome.

Outcome classes
  ok              module executed, every definition asked for checked and lowered
  user            a GuppyError (incl. GuppyTypeError / GuppyTypeInferenceError) whose diagnostic renders and whose every
                  span lies inside the lines of the program text; or a GuppyComptimeError
  python          CPython itself rejected the module before/without any guppylang frame on the stack (NameError in an
                  annotation, SyntaxError, ...): not Guppy's business
  comptime-python an exception raised while CPython executes the body of a `@guppy.comptime` function (the user's own Python):
                  propagated by design
  deliberate      a non-Guppy exception raised by an explicit `raise` statement of guppylang for API misuse (TypeError,
                  ValueError, AttributeError of a traced object ...); reported in the distribution, not a violation
  crash           anything else: AssertionError, InternalGuppyError, KeyError, IndexError, AttributeError, RecursionError,
                  NotImplementedError ... escaping from guppylang code               -> VIOLATION
  bad-diagnostic  GuppyError whose diagnostic does not render or has a span outside the program  -> VIOLATION
  hang            no answer within the time limit                                     -> VIOLATION
"""
from __future__ import annotations

import contextlib
import io
import itertools
import linecache
import os
import signal
import sys
import traceback
import types
import warnings

HERE = os.path.dirname(os.path.abspath(__file__))
sys.path.insert(0, os.path.dirname(HERE))
sys.path.insert(0, HERE)
import bootstrap  # noqa: E402

bootstrap.install()
import feed  # noqa: E402

import c02_gen  # noqa: E402

warnings.filterwarnings("ignore", category=SyntaxWarning)
warnings.filterwarnings("ignore", category=DeprecationWarning)

_DEVNULL = io.StringIO()
_lib = None
LIBNAME = "_verif_c02_lib"
_counter = itertools.count()
NEVER_DELIBERATE = {"InternalGuppyError", "AssertionError", "NotImplementedError", "KeyError", "IndexError", "RecursionError",
                    "UnboundLocalError", "StopIteration"}
TIME_LIMIT = 15
# failures of the sandbox's dependency stack, not of /repo (DESIGN §1): guppylang.std.qsystem does not import against the
# installed tket_exts (no `Measure` op in the qsystem extension); `tket.circuit` is missing, so a loaded pytket circuit
# cannot be lowered (same exclusion as harness/props/c01_harvest.py)
ENV_SIGS = {"OperationNotFound@std/_internal/util.py:quantum_op", "UnboundLocalError@definition/pytket_circuits.py:compile_outer"}


def lib():
    global _lib
    if _lib is None:
        _lib = feed.load(c02_gen.LIB, name=LIBNAME)
    return _lib


HEADER = feed.PRELUDE + f"from {LIBNAME} import *\n"
FOOTER = "\nmain.check()\nmain.compile_function()\n"


def wrap(func_src: str) -> str:
    """a generated function `main` as a whole module"""
    return HEADER + func_src + FOOTER


_patched = False


def patch_engine():
    """`ENGINE.compile` cannot finish on this dependency stack (hugr API drift after lowering, see DESIGN §1): replace
    it by its own first half - check, then lower every reachable definition with the real CompilerContext."""
    global _patched
    if _patched:
        return
    import hugr.build.function as hf
    from guppylang_internals.compiler.core import CompilerContext
    from guppylang_internals.engine import ENGINE

    class _Pkg:
        modules: list = []

        @property
        def package(self):
            return self

    def compile(self, id):  # noqa: A002
        self.check(id)
        graph = hf.Module()
        ctx = CompilerContext(graph)
        ctx.compile(self.checked[id])
        self.compiled = ctx.compiled
        return _Pkg()

    type(ENGINE).compile = compile
    repo = bootstrap.REPO
    if repo not in sys.path:
        sys.path.append(repo)  # `tests.error.util`, `tests.util` for the harvested programs
    _patched = True


def _spans(diag):
    from guppylang_internals.span import to_span
    out = []
    for d in [diag, *getattr(diag, "children", [])]:
        sp = getattr(d, "span", None)
        if sp is not None:
            out.append(to_span(sp))
    return out


def _frames(e: BaseException):
    return traceback.extract_tb(e.__traceback__)


def _is_guppy_file(fn: str) -> bool:
    return "/guppylang" in fn and "/tests/" not in fn


def _repo_frame(e: BaseException) -> str:
    for fr in reversed(_frames(e)):
        if _is_guppy_file(fr.filename):
            rel = fr.filename.split("guppylang_internals/")[-1].split("guppylang/")[-1]
            return f"{rel}:{fr.name}"
    return "?"


class _Timeout(BaseException):
    pass


def _alarm(_sig, frm):
    # is a *function* of the program itself on the stack (the traced body of a comptime function, a Python helper called
    # from `comptime(...)`)?  Then the user's own Python is looping, not guppylang.
    user = ""
    while frm is not None:
        if frm.f_code.co_filename.startswith("<verif-c02-") and frm.f_code.co_name != "<module>":
            user = frm.f_code.co_filename
        frm = frm.f_back
    raise _Timeout(user)


def evaluate(src: str, experimental: bool = True, limit: int | None = None, pre: str = "", post: str = "") -> dict:
    """outcome of one program (module text); a `hang` is confirmed by a second run with a six times longer limit (the
    machine may be heavily loaded).  `pre` / `post` are executed in the module's namespace before / after `src` but are not
    part of its source file (notebook style: imports ran in an earlier cell, the compile call comes in a later one), so `src`
    can start with `@guppy` on line 1 and end with the last line of a function body."""
    o = _evaluate(src, experimental, limit or TIME_LIMIT, pre, post)
    if o["class"] == "hang" and limit is None:
        o = _evaluate(src, experimental, 6 * TIME_LIMIT, pre, post)
    return o


def _evaluate(src: str, experimental: bool, limit: int, pre: str = "", post: str = "") -> dict:
    from guppylang_internals.diagnostic import DiagnosticsRenderer
    from guppylang_internals.engine import DEF_STORE
    from guppylang_internals.error import GuppyComptimeError, GuppyError
    import guppylang_internals.experimental as X

    lib()
    patch_engine()
    n = next(_counter)
    modname, fn = f"_verif_c02_prog_{n}", f"<verif-c02-{n}>"
    linecache.cache[fn] = (len(src), None, src.splitlines(True), fn)
    m = types.ModuleType(modname)
    m.__file__ = fn
    sys.modules[modname] = m
    nlines = src.count("\n") + 1
    old_hook = sys.excepthook
    old_exp = X.EXPERIMENTAL_FEATURES_ENABLED
    X.EXPERIMENTAL_FEATURES_ENABLED = experimental
    old_alarm = signal.signal(signal.SIGALRM, _alarm)
    signal.alarm(limit)
    try:
        try:
            code = compile(src, fn, "exec")
            code_pre = compile(pre, f"<verif-c02-pre-{n}>", "exec") if pre else None
            code_post = compile(post, f"<verif-c02-post-{n}>", "exec") if post else None
        except (SyntaxError, ValueError, RecursionError, MemoryError) as e:
            return {"class": "python", "exc": type(e).__name__}
        try:
            with contextlib.redirect_stdout(_DEVNULL):  # programs may print (comptime(print(1)), traced bodies)
                if code_pre is not None:
                    exec(code_pre, m.__dict__)
                exec(code, m.__dict__)
                if code_post is not None:
                    exec(code_post, m.__dict__)
            return {"class": "ok"}
        except GuppyError as e:
            signal.alarm(0)
            diag = e.error
            dn = type(diag).__name__
            try:
                r = DiagnosticsRenderer(DEF_STORE.sources)
                r.render_diagnostic(diag)
                text = "\n".join(r.buffer)
            except BaseException as e2:  # noqa: BLE001
                return {"class": "bad-diagnostic", "why": "render raised " + type(e2).__name__ + ": " + str(e2)[:200],
                        "diag": dn, "sig": "render:" + _repo_frame(e2) + ":" + type(e2).__name__}
            try:
                spans = _spans(diag)
            except BaseException as e2:  # noqa: BLE001
                return {"class": "bad-diagnostic", "why": "span extraction raised " + type(e2).__name__ + ": " + str(e2)[:200],
                        "diag": dn, "sig": "span:" + _repo_frame(e2) + ":" + type(e2).__name__}
            for sp in spans:
                if sp.start.file != fn or sp.end.file != fn:
                    return {"class": "bad-diagnostic", "why": f"span in another file: {sp.start.file}", "diag": dn,
                            "sig": "span-file:" + dn}
                if not (1 <= sp.start.line <= sp.end.line <= nlines) or (
                        sp.start.line == sp.end.line and sp.start.column > sp.end.column):
                    return {"class": "bad-diagnostic", "why": f"span {sp.start.line}:{sp.start.column}-{sp.end.line}:{sp.end.column}"
                            f" outside lines 1-{nlines}", "diag": dn, "sig": "span-lines:" + dn}
                lines = src.split("\n")
                # columns follow CPython's `ast` convention: UTF-8 byte offsets
                blen = lambda l: len(lines[l - 1].encode("utf-8"))  # noqa: E731
                if sp.start.column > blen(sp.start.line) or sp.end.column > blen(sp.end.line):
                    return {"class": "bad-diagnostic", "why": f"span {sp.start.line}:{sp.start.column}-{sp.end.line}:{sp.end.column}"
                            " column beyond the end of its line", "diag": dn, "sig": "span-cols:" + dn}
            return {"class": "user", "diag": dn, "located": getattr(diag, "span", None) is not None,
                    "text": text[:300] if getattr(diag, "span", None) is None else ""}
        except GuppyComptimeError as e:
            return {"class": "user", "diag": "GuppyComptimeError", "located": False, "text": str(e)[:200]}
        except _Timeout as t:
            if t.args and t.args[0] == fn:  # the user's own Python (a traced comptime body, module code) is looping
                return {"class": "comptime-python", "exc": "timeout"}
            return {"class": "hang", "sig": "hang", "exc": "timeout"}
        except BaseException as e:  # noqa: BLE001
            signal.alarm(0)
            name = type(e).__name__
            frs = _frames(e)
            gf = [fr for fr in frs if _is_guppy_file(fr.filename)]
            if not gf:
                return {"class": "python", "exc": name}
            inner = frs[-1]
            sig = f"{name}@{_repo_frame(e)}"
            if sig in ENV_SIGS:
                return {"class": "env", "exc": name, "sig": sig}
            # is CPython executing the body of a traced (comptime) function of this program?
            in_trace = any(fr.filename.endswith("tracing/function.py") or fr.filename.endswith("tracing/unpacking.py")
                           or "/tracing/" in fr.filename for fr in gf) and any(
                fr.filename == fn for fr in frs[frs.index(gf[0]):])
            if in_trace and (not _is_guppy_file(inner.filename) or inner.filename.endswith("tracing/builtins_mock.py")):
                return {"class": "comptime-python", "exc": name}
            if in_trace and name == "TypeError" and ("keyword argument" in str(e) or "positional argument" in str(e)) \
                    and inner.filename.endswith(("tracing/util.py", "guppylang/defs.py")):
                # the traced Python body called a Python callable (a Guppy definition object) with a bad argument list
                return {"class": "comptime-python", "exc": name}
            line = (inner.line or "").strip()
            if _is_guppy_file(inner.filename) and line.startswith("raise ") and name not in NEVER_DELIBERATE:
                return {"class": "deliberate", "exc": name, "sig": f"{name}@{_repo_frame(e)}", "msg": str(e)[:200]}
            if not _is_guppy_file(inner.filename) and name not in NEVER_DELIBERATE and line.startswith("raise "):
                # explicit raise inside a library guppylang called into (hugr, pytket ...)
                return {"class": "crash", "exc": name, "msg": str(e)[:300], "sig": f"{name}@{_repo_frame(e)}",
                        "tb": "".join(traceback.format_tb(e.__traceback__)[-4:])[-1500:]}
            return {"class": "crash", "exc": name, "msg": str(e)[:300], "sig": f"{name}@{_repo_frame(e)}",
                    "tb": "".join(traceback.format_tb(e.__traceback__)[-4:])[-1500:]}
    except _Timeout:
        return {"class": "hang", "sig": "hang", "exc": "timeout"}
    finally:
        signal.alarm(0)
        signal.signal(signal.SIGALRM, old_alarm)
        sys.excepthook = old_hook
        X.EXPERIMENTAL_FEATURES_ENABLED = old_exp
        sys.modules.pop(modname, None)
        linecache.cache.pop(fn, None)
        _reset_state()


def _reset_state():
    """leave no tracing / unitary state behind a failed program (each program must start from a clean session)"""
    try:
        from guppylang_internals.tracing import state as S
        S.reset_state()
    except Exception:  # noqa: BLE001
        pass


# ====================================================================================================== search streams
POOL: list[tuple[str, str]] = []      # (origin, module text): harvested error programs + integration seeds (filled by prepare())
MUTABLE: list[int] = []               # indices of POOL usable as mutation seeds
SWEEP: list[tuple[str, str]] = []     # (module, name) of std definitions for the call sweep

SWEEP_MODS = ["guppylang.std.builtins", "guppylang.std.quantum", "guppylang.std.debug", "guppylang.std.angles",
              "guppylang.std.option", "guppylang.std.mem", "guppylang.std.array", "guppylang.std.collections",
              "guppylang.std.either", "guppylang.std.iter", "guppylang.std.lang", "guppylang.std.num", "guppylang.std.platform",
              "guppylang.std.bool", "guppylang.std.list", "guppylang.std.string", "guppylang.std.quantum.functional",
              "guppylang.std.reflection", "guppylang.std.err"]
SWEEP_ARGS = ["", "1", "'a'", "1, 2", "'a', 1", "'a', 1, 2", "qubit()", "'a', qubit()", "1, 2, 3, 4", "zz", "k=1", "*(1, 2)", "True",
              "1.5", "array(1,2)", "'a', array(1,2)", "None", "(1, 2)", "int", "qubit", "comptime(1)", "lambda: 1", "[1]", "'a', 'b'",
              "x, x", "x", "f", "f, f", "q", "q, q"]
SWEEP_FORMS = ["    {n}({a})\n", "    y = {n}({a})\n", "    y: int = {n}({a})\n", "    y = {n}[int]({a})\n", "    y = {n}\n",
               "    y = x.{n}({a})\n"]


def sweep_program(mn: str, n: str, a: str, form: str) -> str:
    return (f"from guppylang import guppy\nfrom guppylang.std.builtins import *\nfrom guppylang.std.quantum import qubit\n"
            f"from {mn} import {n}\n@guppy\ndef f(z: int) -> int:\n    return z\n@guppy\ndef main(x: int, q: qubit) -> None:\n"
            + form.format(n=n, a=a) + "main.compile_function()\n")


def prepare() -> None:
    """load everything before forking: library, engine patch, harvested programs, sweep names"""
    import importlib

    import c02_harvest
    lib()
    patch_engine()
    if not POOL:
        for name, src in c02_harvest.error_programs():
            POOL.append(("error/" + name, src))
        for name, src in c02_harvest.integration_seeds():
            POOL.append(("integration/" + name, src))
        # programs that drive guppylang's *internal* extension API (custom_type, hugr_op, custom_function ...) are run as
        # they are but not mutated: breaking the contract of an internal API is not a user program
        MUTABLE.extend(i for i, (_, s) in enumerate(POOL) if "guppylang_internals" not in s)
    if not SWEEP:
        import guppylang.defs as D
        for mn in SWEEP_MODS:
            try:
                m = importlib.import_module(mn)
            except BaseException:  # noqa: BLE001
                continue
            for n, v in sorted(vars(m).items()):
                if not n.startswith("_") and (isinstance(v, D.GuppyDefinition) or isinstance(v, type)):
                    SWEEP.append((mn, n))


def worker(args) -> dict:
    """one batch of one stream; args = (stream, seed, n, extra)"""
    import collections
    import hashlib
    import random
    stream, seed, n, extra = args
    rng = random.Random(seed)
    mu = c02_gen.Mutator(rng)
    cnt: collections.Counter = collections.Counter()
    fails: dict[str, dict] = {}
    nontrivial: set[str] = set()
    samples: list = []
    evals = 0

    trace = hashlib.sha1()

    def note(src, o, kind, pre="", post=""):
        nonlocal evals
        evals += 1
        c = o["class"]
        trace.update(hashlib.sha1(src.encode()).digest())  # which programs ran, in which order (determinism audit)
        cnt[f"{stream}:{c}"] += 1
        if c == "user":
            cnt["diag:" + o["diag"]] += 1
            if not o.get("located"):
                cnt["unlocated:" + o["diag"]] += 1
        if c == "deliberate":
            cnt["deliberate:" + o["sig"]] += 1
        if c in ("user", "deliberate", "comptime-python", "crash", "bad-diagnostic", "hang"):
            nontrivial.add(hashlib.sha1(src.encode()).hexdigest()[:16])
        if c in ("crash", "bad-diagnostic", "hang"):
            sig = o["sig"]
            old = fails.get(sig)
            if old is None or len(src) < len(old["program"]):
                fails[sig] = {"program": src, "outcome": o, "kind": kind, "n": old["n"] if old else 0, "pre": pre, "post": post}
            fails[sig]["n"] += 1
        if len(samples) < 2 and c == "user" and kind not in ("plain", "base") and len(src) < 900:
            samples.append({"stream": stream, "mutation": kind, "diag": o["diag"], "program": src})

    import c02_layout

    def relayout(src, o, r1, r2, exp=True):
        """with probability 0.12 re-run a rejected program in one random layout of its source file"""
        if o["class"] != "user" or r1 >= 0.12:
            return
        ls = c02_layout.layouts(src)
        if ls:
            name, pre, text, post = ls[int(r2 * len(ls)) % len(ls)]
            note(text, evaluate(text, experimental=exp, pre=pre, post=post), "layout:" + name, pre, post)

    if stream == "layout":
        for i in extra:
            origin, src = POOL[i]
            for name, pre, text, post in c02_layout.layouts(src):
                o = evaluate(text, experimental=True, pre=pre, post=post)
                cnt["layout-kind:" + name + ":" + o["class"]] += 1
                note(text, o, "layout:" + name, pre, post)
    elif stream == "plain":
        for i in extra:
            origin, src = POOL[i]
            for exp in ((True, False) if origin.startswith("error/") else (True,)):
                note(src, evaluate(src, experimental=exp), "plain")
    elif stream == "harvest":
        tries = 0
        while evals < n and tries < 6 * n:
            tries += 1
            src = POOL[rng.choice(MUTABLE)][1]
            m = mu.mutate(src)
            if m is None:
                continue
            kind, ms = m
            if rng.random() < 0.3:
                m2 = mu.mutate(ms)
                if m2 is not None:
                    kind, ms = kind + "+" + m2[0], m2[1]
            exp = rng.random() < 0.8
            r1, r2 = rng.random(), rng.random()  # drawn unconditionally: the mutant stream does not depend on outcomes
            o = evaluate(ms, experimental=exp)
            note(ms, o, kind)
            relayout(ms, o, r1, r2, exp)
    elif stream == "gen":
        g = c02_gen.Gen(rng)
        while evals < n:
            f = g.function()
            src = wrap(f)
            o = evaluate(src)
            note(src, o, "base")
            if o["class"] != "ok":
                continue
            for _ in range(8):
                m = mu.mutate(f)
                if m is None:
                    continue
                kind, mf = m
                if rng.random() < 0.25:
                    m2 = mu.mutate(mf)
                    if m2 is not None:
                        kind, mf = kind + "+" + m2[0], m2[1]
                ms = wrap(mf)
                r1, r2 = rng.random(), rng.random()
                o = evaluate(ms)
                note(ms, o, kind)
                relayout(ms, o, r1, r2)
    elif stream == "types":
        te = c02_gen.TypedEntityGen(rng)
        while evals < n:
            src = te.program()
            note(src, evaluate(src), "types")
    elif stream == "sweep":
        for (i, a, fi) in extra:
            mn, nm = SWEEP[i]
            src = sweep_program(mn, nm, SWEEP_ARGS[a], SWEEP_FORMS[fi])
            note(src, evaluate(src), "sweep")
    return {"counts": dict(cnt), "fails": fails, "nontrivial": sorted(nontrivial), "samples": samples, "evals": evals,
            "trace": trace.hexdigest()}


def run_batches(batches, procs=8):
    import multiprocessing as mp
    prepare()
    if procs <= 1:
        return [worker(b) for b in batches]
    with mp.get_context("fork").Pool(procs) as pool:
        return pool.map(worker, batches, chunksize=1)
