"""C13 — Generic instantiation and monomorphization preserve meaning (partial: runtime equality unmodelled)."""
from __future__ import annotations

import json
import os
import sys

sys.path.insert(0, os.path.dirname(os.path.dirname(os.path.abspath(__file__))))
import vlib

PID = "C13"
THEOREM_MODULES = ["GuppyVerif.Props.C13"]
DRIVER = "C13"
RULE = (
    "random generic signatures (0-6 interleaved type / nat-const / non-nat-const / dependent-const `x: T` / "
    "comptime parameters from TyGen.gen_params, 0-3 inputs + output of nesting depth <= 3 over those parameters, plus "
    "injected const-variable uses, nested function types with comptime args and existential const variables) with random "
    "partial instantiations a, b (closed well-kinded arguments mostly; small streams: ill-kinded, wrong length, open or "
    "higher-rank arguments, dangling indices); streams: ip (one partial step), ipip (two chained steps, second full or "
    "partial), inst (raw Instantiator incl. allow_partial), cvi, pma (with and without an outer mono context), rm, tv/cv. "
    "Non-trivial = at least one kept and one instantiated parameter (ip/ipip/pma), resp. a list with both kinds of entries; "
    "distinct by canonical request line. PROGRAM LEVEL (c13_prog.py): random modules with a fixed pool of generic callees "
    "(ident, identl, identc, swap, head over array[E, n], scale with a @comptime parameter, apply + explicit type application -> "
    "LoadFunc) and 2-5 generic callers whose parameters interleave kept type variables (copy+drop, linear, affine, "
    "copy-non-drop), nat variables of array types and monomorphization-forcing parameters (`x: T @comptime`, int/bool/float/nat "
    "@comptime) at random positions; half of the callers are siblings of an earlier one (same variables at the same Guppy "
    "indices, different kept/monomorphized layout); type variable names are shared between callers; a monomorphic entry calls "
    "every caller at 1-3 instantiations in random order, all lowered in ONE CompilerContext; non-trivial program = >= 2 callers "
    "and >= 1 monomorphized parameter"
)
ASSUMPTIONS = [
    "the Lean model Model/Instantiate.lean is hand-written; agreement with tys/ty.py, tys/subst.py, tys/param.py, tys/const.py, "
    "compiler/core.py is established by the same-input correspondence run here (sampling)",
    "Python dataclass == on the type classes ignores preserve flags and input names (compare=False); canonical S-expressions "
    "printed by harness/tysexp.py do show preserve flags and are compared textually between real code and model",
    "signatures are closed: every bound variable of inputs/output/comptime args is < number of parameters and the type of the "
    "i-th parameter only mentions parameters < i (hypothesis Scoped of the composition theorems)",
]
UNMODELLED = [
    "runtime equality of a generic program and its hand-specialised copy is only SAMPLED (program-level tie: both are lowered by "
    "/repo and run on harness/hugr_interp.py, and compared with CPython on the generic source), not proved; the interpreter's op "
    "semantics are an assumption (notes/INTERP.md)",
    "validity of the HUGR of (partially) monomorphized functions is checked on sampled programs by an independent oracle "
    "(type-variable scoping and kinds, Call/LoadFunc instantiation = callee signature at the type args, wire types); in the Lean "
    "model only the index arithmetic (partially_monomorphize_args, compile_variable_idx) is covered",
    "FunctionType.unitary_flags (dropped by FunctionType.transform and instantiate_partial in /repo)",
    "check_all_args / ConstParam.check_arg (kinding of instantiations is the checker's job; the model is kind-agnostic like the code)",
    "input names of FuncInput (compare=False)",
]
MANIFEST = {
    "level_text": "Lean theorems over an executable model of Instantiator / FunctionType.instantiate_partial / "
    "partially_monomorphize_args / compile_variable_idx / require_monomorphization, for all signatures and instantiations "
    "(no size bound): two partial instantiation steps compose exactly (preserve flags and parameter lists included) to the one "
    "step with the merged arguments, a partial step followed by a full one equals the full instantiation with the filled "
    "arguments, compile_variable_idx is the order-preserving bijection from un-monomorphized indices onto [0,k), rem_args are "
    "the arguments at the un-monomorphized positions (so the Hugr index of a kept variable points at its argument), every non-nat "
    "const parameter and every parameter occurring in a non-nat const parameter's type is monomorphized and nothing else is. "
    "The hand-written model is tied to /repo on every run by same-input correspondence on random signatures; independent "
    "Python oracles (simultaneous substitution on S-expression trees, composition law under real ==, definitional oracles) "
    "check the property on the real code. Program level: generated modules of generic callers with different monomorphization "
    "layouts calling shared generic callees are lowered by /repo in one compilation; an independent oracle checks the lowered Hugr, "
    "the model (pma, cvi) must predict the mono args of every lowered instance and the HUGR type arguments of every call site, and "
    "the generic program, its hand-specialised textual copy (both run on the reference Hugr interpreter) and CPython must agree.",
    "level_note": "Partial: runtime equality of generic vs specialised programs and HUGR well-formedness are sampled on generated "
    "programs (reference interpreter / structural oracle), not proved. Composition theorems need closed, rank-1 instantiation arguments and a closed signature; each "
    "hypothesis is shown necessary by a machine-checked counterexample. Trusted: Lean kernel + propext/Classical.choice/Quot.sound, "
    "the statement, the correspondence harness (sampling).",
    "technique": "Lean 4 proof over a hand-written model + differential correspondence with the real classes",
    "design_ref": "DESIGN.md §5 C13",
    "ready": True,
}

ERRS = None


# ---------------------------------------------------------------------------- S-expression trees
def P(s: str):
    """parse one S-expression into nested lists of atoms (str)"""
    toks = s.replace("(", " ( ").replace(")", " ) ").split()
    pos = 0

    def go():
        nonlocal pos
        t = toks[pos]
        pos += 1
        if t == "(":
            out = []
            while toks[pos] != ")":
                out.append(go())
            pos += 1
            return out
        return t

    r = go()
    assert pos == len(toks), s
    return r


def S(t) -> str:
    return t if isinstance(t, str) else "(" + " ".join(S(x) for x in t) + ")"


# ---------------------------------------------------------------------------- trees -> real objects
class Reader:
    def __init__(self):
        import tysexp
        self.env = tysexp.env()

    def ty(self, t):
        from guppylang_internals.tys import ty as T
        h = t[0]
        if h == "num":
            return T.NumericType(getattr(T.NumericType.Kind, t[1].capitalize()))
        if h == "none":
            return T.NoneType(preserve=t[1] == "1")
        if h == "bvar":
            return T.BoundTypeVar(t[1], int(t[2]), t[3] == "1", t[4] == "1")
        if h == "evar":
            return T.ExistentialTypeVar(t[1], int(t[2]), t[3] == "1", t[4] == "1")
        if h == "tuple":
            return T.TupleType([self.ty(x) for x in t[2:]], preserve=t[1] == "1")
        if h == "func":
            ins = []
            for i in t[1]:
                fl = T.InputFlags.NoFlags
                if i[2] == "1":
                    fl |= T.InputFlags.Inout
                if i[3] == "1":
                    fl |= T.InputFlags.Owned
                if i[4] == "1":
                    fl |= T.InputFlags.Comptime
                ins.append(T.FuncInput(self.ty(i[1]), fl))
            from guppylang_internals.tys.arg import ConstArg
            return T.FunctionType(ins, self.ty(t[2]), [self.param(p) for p in t[3]],
                                  comptime_args=[ConstArg(self.const(c)) for c in t[4]])
        if h == "opaque":
            return T.OpaqueType([self.arg(a) for a in t[2:]], self.env.opaques[t[1]])
        if h == "struct":
            return T.StructType([self.arg(a) for a in t[2]], self.env.structs[t[1]])
        raise ValueError(S(t))

    def arg(self, t):
        from guppylang_internals.tys.arg import ConstArg, TypeArg
        if t == "-":
            return None
        return TypeArg(self.ty(t[1])) if t[0] == "ty" else ConstArg(self.const(t[1]))

    def pyval(self, t):
        if t[0] == "int":
            return int(t[1])
        if t[0] == "bool":
            return t[1] == "1"
        if t[0] == "float":
            return float(t[1])
        return t[1]

    def const(self, t):
        from guppylang_internals.tys import const as C
        if t[0] == "val":
            return C.ConstValue(self.ty(t[1]), self.pyval(t[2]))
        if t[0] == "cbvar":
            return C.BoundConstVar(self.ty(t[1]), t[2], int(t[3]))
        return C.ExistentialConstVar(self.ty(t[1]), t[2], int(t[3]))

    def param(self, t):
        from guppylang_internals.tys.param import ConstParam, TypeParam
        if t[0] == "tparam":
            return TypeParam(int(t[1]), t[2], t[3] == "1", t[4] == "1")
        return ConstParam(int(t[1]), t[2], self.ty(t[3]), from_comptime_arg=t[4] == "1")


# ---------------------------------------------------------------------------- independent oracles (on trees)
class NA(Exception):
    """the oracle does not speak about this input (ill-kinded / open / quirk zone)"""


def o_closed_ty(t) -> bool:
    h = t[0]
    if h in ("num", "none", "evar"):
        return True
    if h == "bvar":
        return False
    if h == "tuple":
        return all(o_closed_ty(x) for x in t[2:])
    if h == "func":
        return not t[3] and all(o_closed_ty(i[1]) for i in t[1]) and o_closed_ty(t[2]) and all(o_closed_const(c) for c in t[4])
    if h == "opaque":
        return all(o_closed_arg(a) for a in t[2:])
    if h == "struct":
        return all(o_closed_arg(a) for a in t[2])
    raise ValueError(S(t))


def o_closed_const(c) -> bool:
    return c[0] != "cbvar" and o_closed_ty(c[1])


def o_closed_arg(a) -> bool:
    return o_closed_ty(a[1]) if a[0] == "ty" else o_closed_const(a[1])


def o_has_evar(t) -> bool:
    if isinstance(t, str):
        return False
    if t and t[0] in ("evar", "cevar"):
        return True
    return any(o_has_evar(x) for x in t)


def o_setp(a):
    if a[0] == "ty" and a[1][0] == "tuple":
        return ["ty", ["tuple", "1"] + a[1][2:]]
    if a[0] == "ty" and a[1][0] == "none":
        return ["ty", ["none", "1"]]
    return a


LOWER = [False]


def o_sub_ty(t, env):
    """simultaneous textual substitution of the bound variables of t; env[i] = argument tree or None (kept).
    A variable beyond the instantiated binders keeps pointing at the same outer binder: its index drops by
    the number of removed binders (only when LOWER[0]; signatures must be closed)."""
    h = t[0]
    if h in ("num", "none", "evar"):
        return t
    if h == "bvar":
        i = int(t[2])
        if i >= len(env):
            if LOWER[0]:
                return ["bvar", t[1], str(i - len(env)), t[3], t[4]]
            raise NA
        e = env[i]
        if e is None:
            return t
        if e[0] != "ty":
            raise NA
        return e[1]
    if h == "tuple":
        return ["tuple", t[1]] + [o_sub_ty(x, env) for x in t[2:]]
    if h == "func":
        if t[3]:
            raise NA
        return ["func", [["in", o_sub_ty(i[1], env)] + i[2:] for i in t[1]], o_sub_ty(t[2], env), [],
                [o_sub_const(c, env) for c in t[4]]]
    if h == "opaque":
        return ["opaque", t[1]] + [o_sub_arg(a, env) for a in t[2:]]
    if h == "struct":
        return ["struct", t[1], [o_sub_arg(a, env) for a in t[2]], t[3]]
    raise ValueError(S(t))


def o_sub_arg(a, env):
    if a[0] == "ty":
        r = o_sub_ty(a[1], env)
        if r[0] == "func" and r[3]:
            raise NA  # higher rank
        return ["ty", r]
    return ["const", o_sub_const(a[1], env)]


def _simple(t) -> bool:
    """type on which root-only rewriting and full substitution coincide"""
    return t[0] == "bvar" or o_closed_ty(t)


def o_sub_const(c, env):
    if c[0] == "val":
        if not o_closed_ty(c[1]):
            raise NA
        return c
    if c[0] == "cbvar":
        i = int(c[3])
        if i >= len(env):
            if LOWER[0] and o_closed_ty(c[1]):
                return ["cbvar", c[1], c[2], str(i - len(env))]
            raise NA
        e = env[i]
        if e is None:
            if not _simple(c[1]):
                raise NA
            nt = o_sub_ty(c[1], env)
            if o_has_evar(nt):
                raise NA
            return ["cbvar", nt, c[2], c[3]]
        if e[0] != "const":
            raise NA
        return e[1]
    if not _simple(c[1]):
        raise NA
    nt = o_sub_ty(c[1], env)
    if o_has_evar(nt) and nt != c[1]:
        raise NA
    return ["cevar", nt, c[2], c[3]]


def o_kind_ok(p, a) -> bool:
    return a is None or (p[0] == "tparam") == (a[0] == "ty")


def o_scoped(f) -> bool:
    """closed signature: body below len(params), type of the i-th parameter below i"""
    n = len(f[3])
    try:
        env = [None] * n
        for i in f[1]:
            o_sub_ty(i[1], env)
        o_sub_ty(f[2], env)
        for c in f[4]:
            o_sub_const(c, env)
        for k, p in enumerate(f[3]):
            if p[0] == "cparam":
                o_sub_ty(p[3], [None] * k)
    except NA:
        return False
    return True


def o_ip(f, a):
    """the literal reading of a partial instantiation of the signature tree f with argument trees a:
    substitute the given (closed) arguments textually, renumber the kept parameters in order"""
    ps = f[3]
    if len(a) != len(ps) or not o_scoped(f):
        raise NA
    for p, x in zip(ps, a):
        if not o_kind_ok(p, x) or (x is not None and (not o_closed_arg(x) or (x[0] == "ty" and x[1][0] == "func" and x[1][3]))):
            raise NA
    env, rem = [], []
    for p, x in zip(ps, a):
        if x is not None:
            env.append(o_setp(x))
            continue
        k = str(len(rem))
        if p[0] == "tparam":
            rem.append(["tparam", k] + p[2:])
            env.append(["ty", ["bvar", p[2], k, p[3], p[4]]])
        else:
            nt = o_sub_ty(p[3], list(env))
            if o_has_evar(nt):
                raise NA
            rem.append(["cparam", k, p[2], nt, "0"])
            env.append(["const", ["cbvar", nt, p[2], k]])
    return ["func", [["in", o_sub_ty(i[1], env)] + i[2:] for i in f[1]], o_sub_ty(f[2], env), rem,
            [o_sub_const(c, env) for c in f[4]]]


def o_fill(a, b):
    """fill the None slots of a with the entries of b, in order"""
    if sum(1 for x in a if x is None) != len(b):
        raise NA
    it = iter(b)
    return [x if x is not None else next(it) for x in a]


def o_bvars(t, acc):
    """indices of the bound variables of a type tree (not looking under a quantifier)"""
    h = t[0]
    if h == "bvar":
        acc.add(int(t[2]))
    elif h == "tuple":
        for x in t[2:]:
            o_bvars(x, acc)
    elif h == "func":
        if not t[3]:
            for i in t[1]:
                o_bvars(i[1], acc)
            o_bvars(t[2], acc)
            for c in t[4]:
                o_bvars_const(c, acc)
    elif h == "opaque":
        for a in t[2:]:
            o_bvars_arg(a, acc)
    elif h == "struct":
        for a in t[2]:
            o_bvars_arg(a, acc)
    return acc


def o_bvars_const(c, acc):
    if c[0] == "cbvar":
        acc.add(int(c[3]))
    return o_bvars(c[1], acc)


def o_bvars_arg(a, acc):
    return o_bvars(a[1], acc) if a[0] == "ty" else o_bvars_const(a[1], acc)


NAT = ["num", "nat"]


def o_pma(params, args, cur):
    """definitional oracle for partially_monomorphize_args on well-formed input"""
    n = len(params)
    if len(args) != n or any(int(p[1]) != k for k, p in enumerate(params)):
        raise NA
    if cur is not None:
        args = [o_sub_arg(a, cur) for a in args]
    for p, a in zip(params, args):
        if not o_kind_ok(p, a):
            raise NA
    need = [False] * n
    for k, p in enumerate(params):
        if p[0] != "cparam":
            continue
        inst_ty = o_sub_ty(p[3], args)
        if p[3] != NAT:
            for j in o_bvars(p[3], set()):
                if j >= n:
                    raise NA
                need[j] = True
        if inst_ty != NAT:
            need[k] = True
    mono = [a if need[k] else None for k, a in enumerate(args)]
    if any(m is not None and o_bvars_arg(m, set()) for m in mono):
        return "error"
    rem = [a for k, a in enumerate(args) if not need[k]]
    return "(" + S(["-" if m is None else m for m in mono]) + " " + S(rem) + ")"


def o_rm(params):
    n = len(params)
    out = set()
    for p in params:
        if p[0] == "cparam" and p[3] != NAT:
            out.add(S(p))
            for j in o_bvars(p[3], set()):
                if j >= n:
                    return "error"
                out.add(S(params[j]))
    return "(" + " ".join(sorted(out)) + ")"


def o_cvi(idx, mono):
    if idx >= len(mono) or mono[idx] is not None:
        return "error"
    return str(sum(1 for m in mono[:idx] if m is None))


# ---------------------------------------------------------------------------- running the real code
def _errs():
    global ERRS
    if ERRS is None:
        from guppylang_internals.error import InternalGuppyError
        ERRS = (AssertionError, InternalGuppyError, IndexError, ValueError)
    return ERRS


def _guard(fn):
    try:
        return fn()
    except _errs():
        return "error"
    except RecursionError:
        raise
    except Exception as e:  # noqa: BLE001
        return "exception:" + type(e).__name__


_CCTX = None


def _cctx(cur):
    global _CCTX
    if _CCTX is None:
        import hugr.build.function as hf
        from guppylang_internals.compiler.core import CompilerContext
        _CCTX = CompilerContext(hf.Module())
    _CCTX.current_mono_args = None if cur is None else tuple(cur)
    return _CCTX


def _canon_set(s: str) -> str:
    if not s.startswith("("):
        return s
    return "(" + " ".join(sorted({S(x) for x in P(s)})) + ")"


def real_of(req, rd: Reader):
    """run the request (a tree) on the real code; canonical reply"""
    import tysexp as X
    k = req[0]

    def run():
        if k in ("inst", "insta"):
            from guppylang_internals.tys.subst import Instantiator
            inst = Instantiator([rd.arg(a) for a in req[2]], allow_partial=req[1] == "1")
            if k == "inst":
                return X.ty_sexp(rd.ty(req[3]).transform(inst))
            return X.arg_sexp(rd.arg(req[3]).transform(inst))
        if k == "ip":
            return X.ty_sexp(rd.ty(req[1]).instantiate_partial([rd.arg(a) for a in req[2]]))
        if k == "ipip":
            g = rd.ty(req[1]).instantiate_partial([rd.arg(a) for a in req[2]])
            return X.ty_sexp(g.instantiate_partial([rd.arg(a) for a in req[3]]))
        if k == "cvi":
            from guppylang_internals.compiler.core import compile_variable_idx
            return str(compile_variable_idx(int(req[1]), tuple(rd.arg(a) for a in req[2])))
        if k == "pma":
            from guppylang_internals.compiler.core import partially_monomorphize_args
            cur = None if req[3] == "-" else [rd.arg(a) for a in req[3]]
            mono, rem = partially_monomorphize_args([rd.param(p) for p in req[1]], [rd.arg(a) for a in req[2]], _cctx(cur))
            return "(" + X.args_sexp(mono) + " " + X.args_sexp(rem) + ")"
        if k == "rm":
            from guppylang_internals.compiler.core import require_monomorphization
            r = require_monomorphization([rd.param(p) for p in req[1]])
            return "(" + " ".join(sorted({X.param_sexp(p) for p in r})) + ")"
        if k in ("tv", "cv"):
            from hugr import tys as ht
            from guppylang_internals.tys.const import BoundConstVar
            from guppylang_internals.tys.ty import BoundTypeVar
            cur = None if req[1] == "-" else [rd.arg(a) for a in req[1]]
            ctx = _cctx(cur)
            if k == "tv":
                idx = int(req[2])
                r = ctx.type_var_to_hugr(BoundTypeVar("T", idx, True, True))
                if isinstance(r, ht.Variable):
                    return f"(var {r.idx})"
                assert r == cur[idx].ty.to_hugr(ctx)
                return f"(monoTy {X.ty_sexp(cur[idx].ty)})"
            idx = int(req[3])
            r = ctx.const_var_to_hugr(BoundConstVar(rd.ty(req[2]), "n", idx))
            if isinstance(r, ht.VariableArg):
                return f"(var {r.idx})"
            assert isinstance(r, ht.BoundedNatArg)
            return f"(monoNat {int(r.n)})"
        raise KeyError(k)

    return _guard(run)


def real_eq_law(req, rd: Reader):
    """composition law on the real objects with real `==` (None when not applicable)"""
    f = rd.ty(req[1])
    a = [rd.arg(x) for x in req[2]]
    b = [rd.arg(x) for x in req[3]]
    it = iter(b)
    c = [x if x is not None else next(it) for x in a]
    lhs = f.instantiate_partial(a).instantiate_partial(b)
    rhs = f.instantiate_partial(c)
    return lhs == rhs, lhs, rhs


# ---------------------------------------------------------------------------- generators (real classes)
class Gen:
    def __init__(self, ctx):
        import tysexp as X
        self.X = X
        self.rng = ctx.rng
        self.env = X.env()
        self.eid = 500

    def closed_gen(self, **kw):
        return self.X.TyGen(self.rng, [], **kw)

    def closed_arg(self, p, prev_args, params, *, flip=False, depth=2, weird=0.0):
        """a closed argument for parameter p (prev_args: already chosen args or None, by position)"""
        from guppylang_internals.tys import builtin as B
        from guppylang_internals.tys import ty as T
        from guppylang_internals.tys.arg import ConstArg, TypeArg
        from guppylang_internals.tys.const import ConstValue
        from guppylang_internals.tys.param import TypeParam
        rng = self.rng
        g = self.closed_gen(evars=rng.random() < weird)
        is_ty = isinstance(p, TypeParam) != flip
        if is_ty:
            r = rng.random()
            if r < 0.15:
                return TypeArg(T.NoneType())
            if r < 0.3:
                return TypeArg(T.TupleType([g.gen(1) for _ in range(rng.choice([0, 1, 2]))]))
            if r < 0.45:
                return TypeArg(B.nat_type())
            if weird and rng.random() < weird:
                q = TypeParam(0, "X", True, True)
                return TypeArg(T.FunctionType([T.FuncInput(q.to_bound().ty, T.InputFlags.NoFlags)], B.int_type(), [q]))
            nc = isinstance(p, TypeParam) and p.must_be_copyable
            nd = isinstance(p, TypeParam) and p.must_be_droppable
            return TypeArg(g.gen(depth, need_copy=nc, need_drop=nd))
        ty = getattr(p, "ty", None)
        if ty is not None and isinstance(ty, T.BoundTypeVar) and ty.idx < len(prev_args) and prev_args[ty.idx] is not None \
                and isinstance(prev_args[ty.idx], TypeArg) and not prev_args[ty.idx].ty.unsolved_vars:
            return ConstArg(g.const_of(prev_args[ty.idx].ty))
        if ty is None or ty.bound_vars:
            return ConstArg(g.nat_const())
        return ConstArg(g.const_of(ty))

    def signature(self, nmax=6, depth=3):
        """a real FunctionType with interleaved parameters"""
        from guppylang_internals.tys import builtin as B
        from guppylang_internals.tys import ty as T
        from guppylang_internals.tys.arg import ConstArg, TypeArg
        from guppylang_internals.tys.const import ExistentialConstVar
        from guppylang_internals.tys.param import ConstParam, TypeParam
        rng = self.rng
        n = rng.choice([0, 1, 2, 2, 3, 3, 4, 4, 5, 6][: nmax + 4])
        g0 = self.X.TyGen(rng, [])
        params = g0.gen_params(n)
        g = self.X.TyGen(rng, params, evars=rng.random() < 0.1)
        ins = []
        for p in params:
            if isinstance(p, ConstParam) and p.from_comptime_arg:
                ins.append(T.FuncInput(p.ty, T.InputFlags.Comptime))
        for _ in range(rng.choice([0, 1, 1, 2, 2, 3])):
            ty = g.gen(rng.choice([1, 2, depth]))
            fl = T.InputFlags.NoFlags
            if not ty.copyable:
                fl = T.InputFlags.Owned if rng.random() < 0.5 else T.InputFlags.Inout
            ins.append(T.FuncInput(ty, fl))
        cps = [p for p in params if isinstance(p, ConstParam)]
        tps = [p for p in params if isinstance(p, TypeParam)]
        # uses of arbitrary const parameters (Ph[T, n] ignores kinds at this level, as the Instantiator does)
        for _ in range(rng.choice([0, 0, 1, 2])):
            if not cps:
                break
            c = rng.choice(cps).to_bound()
            ins.append(T.FuncInput(T.StructType([TypeArg(g.gen(1)), c], self.env.structs["Ph"]), T.InputFlags.Owned))
        # a nested (unparametrized) function type carrying comptime args
        if cps and rng.random() < 0.25:
            c = rng.choice(cps)
            inner = T.FunctionType([T.FuncInput(c.ty, T.InputFlags.Comptime)], g.gen(1), [], comptime_args=[c.to_bound()])
            ins.append(T.FuncInput(inner, T.InputFlags.NoFlags))
        # an existential const variable whose type is a type parameter / closed
        if rng.random() < 0.1:
            self.eid += 1
            ety = rng.choice(tps).to_bound().ty if tps and rng.random() < 0.7 else B.nat_type()
            ev = ExistentialConstVar(ety, "e", self.eid)
            ins.append(T.FuncInput(T.StructType([TypeArg(B.int_type()), ConstArg(ev)], self.env.structs["Ph"]), T.InputFlags.Owned))
        rng.shuffle(ins)
        out = g.gen(rng.choice([0, 1, 2]))
        return T.FunctionType(ins, out, params)

    def partial(self, params, *, p_none=0.5, flip=0.0, weird=0.0, open_with=None):
        """a partial instantiation for params (None = kept)"""
        rng = self.rng
        out = []
        for p in params:
            if rng.random() < p_none:
                out.append(None)
            elif open_with is not None and rng.random() < 0.5:
                og = self.X.TyGen(rng, open_with)
                out.append(og.args_for([p], 2)[0])
            else:
                out.append(self.closed_arg(p, out, params, flip=rng.random() < flip, weird=weird))
        return out


# ---------------------------------------------------------------------------- case streams
def _mk_cases(ctx):
    """returns list of dicts {req (tree), kind, nontrivial}"""
    import tysexp as X
    rng = ctx.rng
    G = Gen(ctx)
    cases = []

    def add(req, kind, nontrivial):
        cases.append({"req": req, "kind": kind, "nt": bool(nontrivial)})

    def A(a):
        return P(X.arg_sexp(a)) if a is not None else "-"

    def mixed(a):
        return any(x is None for x in a) and any(x is not None for x in a)

    # --- ip / ipip on sane input (oracle applies), plus error streams
    n_sig = ctx.n(1500, 60000)
    for i in range(n_sig):
        stream = rng.random()
        f = G.signature()
        ft = P(X.ty_sexp(f))
        if stream < 0.80:
            a = G.partial(f.params)
            tag = "sane"
        elif stream < 0.86:
            a = G.partial(f.params, flip=0.3)
            tag = "illkinded"
        elif stream < 0.90:
            a = G.partial(f.params)
            a = a[:-1] if a and rng.random() < 0.5 else a + [None]
            tag = "wronglen"
        elif stream < 0.95:
            a = G.partial(f.params, weird=0.5)
            tag = "weird"
        else:
            a = G.partial(f.params, open_with=list(f.params))
            tag = "open"
        at = [A(x) for x in a]
        add(["ip", ft, at], "ip:" + tag, mixed(a))
        # second step on the real result
        g = _guard(lambda: f.instantiate_partial(a))
        if isinstance(g, str):
            continue
        r2 = rng.random()
        if r2 < 0.45:
            b = G.partial(g.params, p_none=0.0, flip=0.3 if tag == "illkinded" else 0.0, weird=0.3 if tag == "weird" else 0.0)
            t2 = "full"
        elif r2 < 0.9:
            b = G.partial(g.params, p_none=0.4, flip=0.3 if tag == "illkinded" else 0.0, weird=0.3 if tag == "weird" else 0.0)
            t2 = "partial"
        else:
            b = G.partial(g.params, p_none=0.3)
            b = b[:-1] if b and rng.random() < 0.5 else b + [None]
            t2 = "wronglen"
        add(["ipip", ft, at, [A(x) for x in b]], f"ipip:{tag}:{t2}", mixed(a))

    # --- raw Instantiator (real vs model; oracle on sane ones)
    for i in range(ctx.n(1500, 60000)):
        ps = X.TyGen(rng, []).gen_params(rng.choice([0, 1, 2, 3, 4]))
        extra = rng.random() < 0.15
        scope = ps + (X.TyGen(rng, []).gen_params(len(ps) + 2)[len(ps):] if extra else [])
        g = X.TyGen(rng, scope, kinded=rng.random() < 0.8, evars=rng.random() < 0.15)
        try:
            t = g.gen(rng.choice([1, 2, 3]))
        except _errs():
            # TyGen(kinded=False) can trip over its own ill-kinded struct (`ty.copyable` in the func branch)
            ctx.bump("gen-retry")
            continue
        ap = rng.random() < 0.5
        sig = G.partial(ps, p_none=0.4 if ap or rng.random() < 0.1 else 0.0, flip=0.05,
                        weird=0.2 if rng.random() < 0.2 else 0.0, open_with=scope if rng.random() < 0.3 else None)
        if rng.random() < 0.5:
            add(["inst", "1" if ap else "0", [A(x) for x in sig], P(X.ty_sexp(t))], "inst:" + ("ap" if ap else "full"), mixed(sig))
        else:
            try:
                arg = g.args_for([rng.choice(scope)] if scope else X.TyGen(rng, []).gen_params(1), 2)[0]
            except _errs():
                ctx.bump("gen-retry")
                continue
            add(["insta", "1" if ap else "0", [A(x) for x in sig], A(arg)], "insta:" + ("ap" if ap else "full"), mixed(sig))

    # --- compile_variable_idx
    for i in range(ctx.n(600, 10000)):
        n = rng.choice([0, 1, 2, 3, 4, 5, 6, 8])
        ps = X.TyGen(rng, []).gen_params(n)
        mono = G.partial(ps, p_none=rng.choice([0.2, 0.5, 0.8]))
        mt = [A(x) for x in mono]
        for idx in (range(n + 2) if n <= 4 else [rng.randrange(n + 1)]):
            add(["cvi", str(idx), mt], "cvi", mixed(mono))
        if n:
            idx = rng.randrange(n + 1)
            add(["tv", mt, str(idx)], "tv", mixed(mono))
            q = rng.choice(ps)
            add(["cv", mt, P(X.ty_sexp(q.ty)) if hasattr(q, "ty") and rng.random() < 0.4 else NAT, str(idx)], "cv", mixed(mono))
            add(["tv", "-", str(idx)], "tv", False)
            add(["cv", "-", NAT, str(idx)], "cv", False)

    # --- partially_monomorphize_args / require_monomorphization
    from guppylang_internals.tys import builtin as B
    from guppylang_internals.tys.arg import TypeArg
    from guppylang_internals.tys.param import ConstParam, TypeParam
    for i in range(ctx.n(1500, 60000)):
        n = rng.choice([0, 1, 2, 3, 3, 4, 4, 5, 6])
        ps = X.TyGen(rng, []).gen_params(n)
        pt = [P(X.param_sexp(p)) for p in ps]
        stream = rng.random()
        add(["rm", pt], "rm", any(isinstance(p, ConstParam) and p.ty != B.nat_type() for p in ps))
        dep = {p.ty.idx for p in ps if isinstance(p, ConstParam) and p.ty.bound_vars}
        if stream < 0.6:
            args = []
            for k, p in enumerate(ps):
                if k in dep and rng.random() < 0.5:
                    args.append(TypeArg(B.nat_type()))
                else:
                    args.append(G.closed_arg(p, args, ps))
            add(["pma", pt, [A(x) for x in args], "-"], "pma:closed", 0 < sum(1 for p in ps if isinstance(p, ConstParam) and p.ty != B.nat_type()) < n)
        elif stream < 0.9:
            qs = X.TyGen(rng, []).gen_params(rng.choice([1, 2, 3, 4]))
            cur = G.partial(qs, p_none=0.5)
            og = X.TyGen(rng, qs)
            args = []
            ocs = [q for q in qs if isinstance(q, ConstParam)]
            for k, p in enumerate(ps):
                if isinstance(p, ConstParam) and ocs and rng.random() < 0.3:
                    args.append(rng.choice(ocs).to_bound())      # an outer const variable as argument
                elif rng.random() < 0.5:
                    args.append(og.args_for([p], 2)[0])
                elif k in dep and rng.random() < 0.5:
                    args.append(TypeArg(B.nat_type()))
                else:
                    args.append(G.closed_arg(p, args, ps))
            add(["pma", pt, [A(x) for x in args], [A(x) for x in cur]], "pma:outer", mixed(cur))
        else:
            # ill-formed: wrong length, permuted idx, flipped kinds
            args = G.partial(ps, p_none=0.0, flip=0.2)
            r = rng.random()
            if r < 0.3 and args:
                args = args[:-1]
            elif r < 0.6 and len(pt) >= 2:
                j, k = rng.sample(range(len(pt)), 2)
                pt = [list(p) for p in pt]
                pt[j][1], pt[k][1] = pt[k][1], pt[j][1]
            add(["pma", pt, [A(x) for x in args], "-"], "pma:illformed", False)
            add(["rm", pt + ([pt[0]] if pt and r > 0.8 else [])], "rm", False)
    return cases


def _corpus():
    out = []
    d = os.path.join(vlib.VERIF, "corpus", "c13")
    if os.path.isdir(d) and not os.environ.get("C13_NO_CORPUS"):  # (switch used only for mutation testing)
        for fn in sorted(os.listdir(d)):
            if fn.endswith(".json"):
                for c in json.load(open(os.path.join(d, fn))):
                    if "request" not in c:
                        continue  # program-level corpus entries are handled by _prog_tie
                    out.append({"req": P(c["request"]), "kind": "corpus:" + c.get("kind", fn), "nt": True,
                                "expect": c.get("expect")})
    return out


# ---------------------------------------------------------------------------- oracle dispatch
def oracle_of(req):
    """the property's literal reading (None = no statement about this input)"""
    k = req[0]
    un = lambda xs: [None if x == "-" else x for x in xs]
    try:
        if k == "ip":
            return S(o_ip(req[1], un(req[2])))
        if k == "ipip":
            a, b = un(req[2]), un(req[3])
            g = o_ip(req[1], a)
            return S(o_ip(g, b))
        if k == "inst" or k == "insta":
            sig = un(req[2])
            ap = req[1] == "1"
            for x in sig:
                if x is None and not ap:
                    raise NA
                if x is not None and not o_closed_arg(x):
                    raise NA
                if x is not None and x[0] == "ty" and x[1][0] == "func" and x[1][3]:
                    raise NA
            LOWER[0] = True
            try:
                r = o_sub_ty(req[3], sig) if k == "inst" else o_sub_arg(req[3], sig)
            finally:
                LOWER[0] = False
            return S(r)
        if k == "cvi":
            return o_cvi(int(req[1]), un(req[2]))
        if k == "pma":
            return o_pma(req[1], req[2], None if req[3] == "-" else un(req[3]))
        if k == "rm":
            return o_rm(req[1])
        if k == "tv":
            if req[1] == "-":
                return f"(var {req[2]})"
            m = un(req[1])
            i = int(req[2])
            if i >= len(m):
                return "error"
            if m[i] is None:
                return f"(var {o_cvi(i, m)})"
            return "(monoTy " + S(m[i][1]) + ")" if m[i][0] == "ty" else "error"
        if k == "cv":
            # const_var_to_hugr: a nat-typed const variable that stays generic is the HUGR variable numbered by the
            # un-monomorphized parameters before it; a monomorphized one is its value
            if req[2] != NAT:
                return "error"
            i = int(req[3])
            if req[1] == "-":
                return f"(var {i})"
            m = un(req[1])
            if i >= len(m):
                return "error"
            if m[i] is None:
                return f"(var {o_cvi(i, m)})"
            c = m[i][1] if m[i][0] == "const" else None
            if c is not None and c[0] == "val" and c[2][0] in ("int", "bool"):
                return f"(monoNat {int(c[2][1])})"
            return "error"
    except NA:
        return None
    return None


def o_composition_expected(req):
    """for ipip: the one-step instantiation with the merged arguments (oracle form of the composition law)"""
    un = lambda xs: [None if x == "-" else x for x in xs]
    try:
        a, b = un(req[2]), un(req[3])
        o_ip(req[1], a)  # applicability (closed, well-kinded, scoped)
        c = o_fill(a, b)
        return S(o_ip(req[1], c))
    except NA:
        return None



# ---------------------------------------------------------------------------- program-level tie
RT_INPUTS = [(3, 2.5, True), (-2, 0.5, False), (0, -1.25, True)]


def _shape(s):
    """ret_shape from its JSON form (lists -> the tuples hugr_interp expects)"""
    if isinstance(s, list):
        return (s[0], [_shape(x) for x in s[1]]) if s[0] == "tuple" else (s[0], _shape(s[1]))
    return s


def _lower_outcome(src, entry="entry", keep_ctx=False):
    """('rejected', msg) | ('crash', msg) | ('ok', module, g, cctx)"""
    import c13_prog as PG
    import feed
    try:
        m = feed.load(src)
    except Exception as e:  # noqa: BLE001
        return ("rejected", f"load: {type(e).__name__}: {e}")
    defn = getattr(m, entry)
    k, e = feed.check_outcome(defn)
    if k != "ok":
        return ("rejected", f"{k}: {feed.err_class(e)}")
    try:
        g, cctx = PG.lower_with_ctx(defn)
    except RecursionError:
        raise
    except BaseException as e:  # noqa: BLE001
        return ("crash", f"{type(e).__name__}: {str(e)[:200]}")
    return ("ok", m, g, cctx)


def _prog_problems(src, entry="entry"):
    """oracle verdict on a program source: list of problems of its lowering (empty = fine / not accepted)"""
    import c13_prog as PG
    r = _lower_outcome(src, entry)
    if r[0] == "rejected":
        return []
    if r[0] == "crash":
        return ["lowering crashed although the checker accepted the program: " + r[1]]
    return PG.check_hugr(r[2].hugr)


def _unbound_at_runtime(prog):
    """does running the lowered generic program hit an unbound type / const variable?"""
    import c13_prog as PG
    import hugr_interp as hi
    r = _lower_outcome(PG.render(prog))
    if r[0] != "ok":
        return False
    try:
        hi.run(r[2].hugr, "entry", list(RT_INPUTS[0]), ret_shape=PG.ret_shape(prog))
    except hi.InterpError as e:
        return "unbound" in str(e)
    except Exception:  # noqa: BLE001
        return False
    return False


def _shrink(prog):
    """drop callers / entry calls while the oracle still reports a problem"""
    import c13_prog as PG
    return _shrink_by(prog, lambda p: bool(_prog_problems(PG.render(p))))


def _shrink_by(prog, bad):
    import c13_prog as PG
    cur = prog
    budget = 24
    changed = True
    while changed and budget > 0:
        changed = False
        for c in list(cur["callers"]):
            if len(cur["callers"]) <= 1 or budget <= 0:
                break
            cand = PG.restrict(cur, {x["name"] for x in cur["callers"]} - {c["name"]})
            budget -= 1
            if cand["calls"] and bad(cand):
                cur, changed = cand, True
        for i in range(len(cur["calls"]) - 1, -1, -1):
            if len(cur["calls"]) <= 1 or budget <= 0:
                break
            cand = PG.restrict(cur, {x["name"] for x in cur["callers"]}, set(range(len(cur["calls"]))) - {i})
            cand["callers"] = [c for c in cand["callers"] if any(k["caller"] == c["name"] for k in cand["calls"])]
            budget -= 1
            if bad(cand):
                cur, changed = cand, True
    return cur


def _garg(d, pby):
    """real Guppy argument for a type descriptor of the generator, in the caller's parameter context"""
    from guppylang_internals.tys import builtin as B
    from guppylang_internals.tys.arg import TypeArg
    if d[0] == "tv":
        return pby[d[1]].to_bound()
    if d[0] == "c":
        return TypeArg({"int": B.int_type, "float": B.float_type, "bool": B.bool_type, "nat": B.nat_type}[d[1]]())
    raise ValueError(d)


def _call_sites(c, pby, callee_params):
    """[(hugr op kind, callee name, [real Guppy type args in the callee's parameter order])] of caller c"""
    from guppylang_internals.tys import builtin as B
    from guppylang_internals.tys.arg import ConstArg
    from guppylang_internals.tys.const import ConstValue
    out = []

    def site(kind, nm, by_name):
        out.append((kind, nm, [by_name[p.name] for p in callee_params[nm]]))

    for s in c["stmts"]:
        op = s["op"]
        if op in ("natval", "finv", "fmul"):
            continue
        v = _garg(s["v"]["ty"], pby) if s["v"]["ty"][0] != "arr" else None
        if op in ("ident", "discard", "tup"):
            site("Call", "ident", {"Q": v})
        elif op == "identl":
            site("Call", "identl", {"L": v})
        elif op == "identc":
            site("Call", "identc", {"C": v})
        elif op == "swap":
            site("Call", "swap", {"A": v, "B": _garg(s["w"]["ty"], pby)})
        elif op == "head":
            ty = s["v"]["ty"]
            site("Call", "head", {"E": _garg(ty[1], pby), "cn": pby[ty[2][1]].to_bound()})
        elif op == "scale":
            site("Call", "scale", {"k": ConstArg(ConstValue(B.int_type(), s["k"])), "Q": v})
        elif op == "apply":
            site("LoadFunc", "ident", {"Q": v})
            site("Call", "apply", {"A": v, "B": v})
    return out


def _entry_args(c, k, params):
    """real Guppy type arguments of the entry's call `k` of caller `c` (parameter order of the real signature)"""
    import c13_prog as PG
    from guppylang_internals.tys import builtin as B
    from guppylang_internals.tys.arg import ConstArg, TypeArg
    from guppylang_internals.tys.const import ConstValue
    from guppylang_internals.tys.param import TypeParam
    conc = {"int": B.int_type, "float": B.float_type, "bool": B.bool_type, "nat": B.nat_type}
    ct = {a["name"]: (a, v) for a, v in zip(c["args"], k["vals"]) if a["mode"] == "comptime"}
    args = []
    for p in params:
        if isinstance(p, TypeParam):
            args.append(TypeArg(conc[k["tmap"][p.name][1]]()))
        elif p.name in k["nmap"]:
            args.append(ConstArg(ConstValue(B.nat_type(), k["nmap"][p.name])))
        else:
            a, v = ct[p.name]
            ty = a["ty"] if a["ty"][0] == "c" else k["tmap"][a["ty"][1]]
            args.append(ConstArg(ConstValue(conc[ty[1]](), PG.lit_value(v))))
    return args


def _prog_tie(ctx):
    """generated multi-caller programs lowered in one CompilerContext: Hugr oracle, model tie, runtime"""
    import c13_prog as PG
    import feed
    import hugr.ops as ops
    import hugr_interp as hi
    import tysexp as X
    from guppylang_internals.engine import ENGINE

    # fixed programs (corpus) ------------------------------------------------------------------
    d = os.path.join(vlib.VERIF, "corpus", "c13")
    fixed = []
    if os.path.isdir(d) and not os.environ.get("C13_NO_CORPUS"):
        for fn in sorted(os.listdir(d)):
            if fn.endswith(".json"):
                fixed += [c for c in json.load(open(os.path.join(d, fn))) if "source" in c]
    if ctx.replay_in and "source" in ctx.replay_in.get("replay", {}):
        r = ctx.replay_in["replay"]
        fixed.append({"source": r["source"], "entries": [r.get("entry", "entry")], "kind": "replay"})
    for c in fixed:
        for entry in c["entries"]:
            probs = _prog_problems(c["source"], entry)
            ctx.count("prog:" + PG.src_hash(c["source"]) + ":" + entry, nontrivial=True, kind="prog:corpus:" + ("bad" if probs else "ok"))
            if probs:
                ctx.violation("prog:" + PG.src_hash(c["source"] + entry), f"fixed program `{c.get('kind', '')}` entry {entry}: {probs[0][:400]}",
                              {"source": c["source"], "entry": entry, "problems": probs[:10]})
        for run in c.get("runs", []):
            # recorded run-time results (reference Hugr interpreter on /repo's lowering)
            r = _lower_outcome(c["source"], run["entry"])
            shape = json.loads(json.dumps(run["ret_shape"]), object_hook=None)
            shape = _shape(shape)
            try:
                got = repr(hi.run(r[2].hugr, run["entry"], list(run["args"]), ret_shape=shape).outcome()) if r[0] == "ok" else r[0] + ": " + r[1]
            except RecursionError:
                raise
            except Exception as e:  # noqa: BLE001
                got = f"interpreter: {type(e).__name__}: {str(e)[:160]}"
            ctx.count("prog-run:" + PG.src_hash(c["source"]) + run["entry"], nontrivial=True, kind="prog:corpus-run:" + ("ok" if got == run["expect"] else "bad"))
            if got != run["expect"]:
                ctx.violation("prog:" + PG.src_hash(c["source"] + run["entry"]),
                              f"fixed program `{c.get('kind', '')}`: {run['entry']}{tuple(run['args'])} computes {got}, expected {run['expect']}",
                              {"source": c["source"], "entry": run["entry"], "args": run["args"], "got": got, "expected": run["expect"]})

    # generated programs -----------------------------------------------------------------------
    n_prog = ctx.n(22, 400)
    pend = []          # caller instances awaiting the model rounds
    n_bad = 0
    unsupported = 0
    for pi in range(n_prog):
        # the first programs of every run contain `pick(k @comptime, .., xs: array[E, n])` and its mirrored control
        prog = PG.gen_program(ctx.rng, ct_nat_pair=True if pi < 4 else None)
        src = PG.render(prog)
        r = _lower_outcome(src)
        n_mono = sum(1 for c in prog["callers"] if any(a["mode"] == "comptime" and a["ty"] != ("c", "nat") for a in c["args"]))
        nt = n_mono >= 1 and len(prog["callers"]) >= 2
        if r[0] == "rejected":
            ctx.count("prog:" + PG.src_hash(src), nontrivial=False, kind="prog:rejected")
            ctx.broke("program generator produced a program the checker rejects (" + r[1] + "):\n" + src[:1500])
            continue
        if r[0] == "crash":
            r2 = _lower_outcome(PG.render(prog, "spec"))
            if r2[0] != "ok":
                ctx.count("prog:" + PG.src_hash(src), nontrivial=False, kind="prog:twin-fails-too")
                ctx.broke("generated program and its hand-specialised twin both fail to lower (" + r[1] + " / " + r2[1] + "):\n" + src[:1500])
                continue
            probs = ["lowering crashed although the checker accepted the program and its hand-specialised textual twin "
                     "lowers fine: " + r[1]]
        else:
            try:
                probs = PG.check_hugr(r[2].hugr)
            except RecursionError:
                raise
            except Exception as e:  # noqa: BLE001  (a bug of the oracle must not abort the run)
                ctx.count("prog:" + PG.src_hash(src), nontrivial=False, kind="prog:oracle-exception")
                ctx.broke(f"Hugr oracle raised {type(e).__name__}: {str(e)[:200]} on\n" + src[:1500])
                continue
        ctx.count("prog:" + PG.src_hash(src), nontrivial=nt, kind="prog:" + ("ok" if not probs else "bad"))
        if probs:
            n_bad += 1
            small = _shrink(prog) if n_bad <= 3 else prog     # shrinking is slow: only the first failures
            ssrc = PG.render(small)
            sprobs = _prog_problems(ssrc) or probs
            ctx.violation("prog:" + PG.src_hash(ssrc),
                          f"generic callers lowered in one compilation give an ill-formed Hugr: {sprobs[0][:500]}",
                          {"source": ssrc, "entry": "entry", "problems": sprobs[:10], "original_source": src,
                           "callers": len(small["callers"]), "calls": len(small["calls"])})
            continue
        _m, g, cctx = r[1], r[2], r[3]
        h = g.hugr
        # ---- runtime: generic vs hand-specialised copy vs CPython
        try:
            shape = PG.ret_shape(prog)
            ssrc = PG.render(prog, "spec")
            r2 = _lower_outcome(ssrc)
            if r2[0] != "ok":
                ctx.broke("hand-specialised copy is not accepted / does not lower (" + r2[1] + "):\n" + ssrc[:1500])
            else:
                for args in RT_INPUTS[: ctx.n(2, 3)]:
                    og = hi.run(h, "entry", list(args), ret_shape=shape).outcome()
                    osp = hi.run(r2[2].hugr, "entry", list(args), ret_shape=shape).outcome()
                    try:
                        opy = ("value", PG.run_python(prog, args))
                    except Exception as e:  # noqa: BLE001
                        opy = ("pyerror", type(e).__name__)
                    ctx.bump("prog:runtime-compared")
                    if repr(og) != repr(osp) or repr(og) != repr(opy):
                        ctx.violation("prog-rt:" + PG.src_hash(src) + repr(args),
                                      f"generic program, its hand-specialised copy and CPython disagree on entry{args}: "
                                      f"generic={og!r} specialised={osp!r} python={opy!r}"[:900],
                                      {"source": src, "specialised_source": ssrc, "entry": "entry", "args": list(args),
                                       "generic": repr(og), "specialised": repr(osp), "python": repr(opy)})
        except (hi.Unsupported, hi.OutOfFuel) as e:
            unsupported += 1
            ctx.bump("prog:interp-" + type(e).__name__)
        except hi.InterpError as e:
            if "unbound" in str(e) and "variable" in str(e):
                # the lowered Hugr refers to a type / const variable its FuncDefn does not bind
                small = _shrink_by(prog, lambda p: _unbound_at_runtime(p))
                ssrc = PG.render(small)
                ctx.violation("prog:" + PG.src_hash(ssrc),
                              f"the lowered Hugr of an accepted program uses a variable that is not bound by the enclosing "
                              f"function (reference interpreter: {str(e)[:200]})",
                              {"source": ssrc, "entry": "entry", "problems": [str(e)[:300]], "original_source": src})
                continue
            unsupported += 1
            ctx.bump("prog:interp-InterpError")
        except RecursionError:
            raise
        except Exception as e:  # noqa: BLE001  (interpreter / harness limitation: skip and count, never a violation)
            unsupported += 1
            ctx.bump("prog:interp-" + type(e).__name__)
        # ---- model tie data
        callee_params = {nm: list(ENGINE.get_checked(getattr(_m, nm).id).ty.params) for nm in PG_CALLEES}
        by = {c["name"]: c for c in prog["callers"]}
        seen = set()
        for k in prog["calls"]:
            c = by[k["caller"]]
            cdef = ENGINE.get_checked(getattr(_m, c["name"]).id)
            params = list(cdef.ty.params)
            args = _entry_args(c, k, params)
            key = (c["name"], X.args_sexp(args))
            if key in seen:
                continue
            seen.add(key)
            real_keys = {X.args_sexp(mk[1]): v for mk, v in cctx.compiled.items() if mk[0] == cdef.id and mk[1] is not None}
            pend.append({"caller": c, "params": params, "args": args, "real_keys": real_keys, "hugr": h, "src": src,
                         "callee_params": callee_params})
    ctx.extra["prog_interp_unsupported"] = unsupported

    # ---- model round 1: mono args of every lowered caller instance (Lean `pma`, outer context = the entry's `()`)
    lines = ["(pma (" + " ".join(X.param_sexp(p) for p in v["params"]) + ") " + X.args_sexp(v["args"]) + " ())" for v in pend]
    rep = ctx.driver(DRIVER, lines) if lines else []
    lines2, owner = [], []
    for v, line, m in zip(pend, lines, rep):
        v["ok"] = False
        if not m.startswith("("):
            ctx.broke(f"model rejects the monomorphization of a lowered caller instance: {line[:300]} -> {m}")
            continue
        mt = P(m)
        mono = S(mt[0])
        if mono not in v["real_keys"]:
            ctx.broke(f"mono args of caller {v['caller']['name']}: model {mono[:200]} is not among the lowered instances "
                      f"{sorted(v['real_keys'])[:3]} ({line[:200]})")
            continue
        v["ok"], v["mono"], v["n_rem"] = True, mono, len(mt[1])
        pby = {p.name: p for p in v["params"]}
        v["sites"] = _call_sites(v["caller"], pby, v["callee_params"])
        for i in range(len(v["params"])):
            lines2.append(f"(cvi {i} {mono})")
            owner.append((v, "cvi", i))
        for i, prm in enumerate(v["params"]):
            if getattr(prm, "ty", None) is not None and X.ty_sexp(prm.ty) == "(num nat)":
                lines2.append(f"(cv {mono} (num nat) {i})")
                owner.append((v, "cv", i))
        for j, (kind, nm, gargs) in enumerate(v["sites"]):
            lines2.append("(pma (" + " ".join(X.param_sexp(p) for p in v["callee_params"][nm]) + ") " + X.args_sexp(gargs) + " " + mono + ")")
            owner.append((v, "site", j))
    # ---- model round 2: HUGR index of every kept variable (`cvi`) and the remaining type args of every call site
    rep2 = ctx.driver(DRIVER, lines2) if lines2 else []
    for (v, what, j), m in zip(owner, rep2):
        if what == "cvi":
            v.setdefault("cvi", {})[j] = m
        elif what == "cv":
            v.setdefault("cv", {})[j] = m
        else:
            v.setdefault("site_rem", {})[j] = m
    n_inst = n_sites = 0
    for v in pend:
        if not v.get("ok"):
            continue
        h = v["hugr"]
        comp = v["real_keys"][v["mono"]]
        node = comp.func_def.parent_node
        n_inst += 1
        ctx.count("prog-inst:" + PG.src_hash(v["src"]) + v["caller"]["name"] + v["mono"], nontrivial="-" in v["mono"] and "(ty" in v["mono"] or "(const" in v["mono"], kind="prog:instance")
        if len(h[node].op.params) != v["n_rem"]:
            ctx.broke(f"caller {v['caller']['name']} mono {v['mono'][:120]}: lowered FuncDefn has {len(h[node].op.params)} "
                      f"type params, model rem_args has {v['n_rem']}")
            continue

        def cvi(i, v=v):
            return v["cvi"].get(i, "ERR")

        def cvn(i, v=v):
            m = v.get("cv", {}).get(i, "ERR")
            if m.startswith("(var "):
                return "var" + m[5:-1]
            if m.startswith("(monoNat "):
                return "nat" + m[9:-1]
            return "model:" + m

        exp = []
        for j, (kind, nm, _ga) in enumerate(v["sites"]):
            m = v["site_rem"].get(j, "error")
            if not m.startswith("("):
                exp.append((kind, nm, ["model:" + m]))
            else:
                exp.append((kind, nm, [PG.model_arg_canon(a, cvi, cvn) for a in P(m)[1]]))
        real = []
        for n in h:
            op = h[n].op
            if not isinstance(op, ops.Call | ops.LoadFunc):
                continue
            q = n
            while q is not None and not isinstance(h[q].op, ops.FuncDefn):
                q = h[q].parent
            if q != node:
                continue
            callee = [src[0].node for _ip, src in h.incoming_links(n) if isinstance(h[src[0].node].op, ops.FuncDefn)]
            cname = h[callee[0]].op.f_name if callee else "?"
            if cname in PG_CALLEES:
                real.append((type(op).__name__, cname, [PG.hugr_arg_canon(PG.J(a)) for a in op.type_args]))
        want_nat = {cvn(i) for i in v.get("cv", {})}
        for n in h:
            op = h[n].op
            if isinstance(op, ops.Call | ops.LoadFunc | ops.FuncDefn) or not isinstance(op, ops.Custom | ops.ExtOp):
                continue
            q = n
            while q is not None and not isinstance(h[q].op, ops.FuncDefn):
                q = h[q].parent
            if q != node:
                continue
            for a in op.args:
                ja = PG.J(a)
                if ja.get("tya") == "Variable" and (ja.get("cached_decl") or {}).get("tp") == "BoundedNat":
                    n_sites += 1
                    if PG.hugr_arg_canon(ja) not in want_nat:
                        ctx.broke(f"caller {v['caller']['name']} (mono {v['mono'][:120]}): an extension op has the nat argument "
                                  f"{PG.hugr_arg_canon(ja)}, the model's const_var_to_hugr allows only {sorted(want_nat)}")
        n_sites += len(exp)
        if sorted(real) != sorted(exp):
            ctx.broke(f"HUGR type args of the call sites of caller {v['caller']['name']} (mono {v['mono'][:120]}): "
                      f"real {sorted(real)[:6]} vs model (pma+cvi) {sorted(exp)[:6]}")
    ctx.extra["prog_instances_tied"] = n_inst
    ctx.extra["prog_call_sites_tied"] = n_sites


PG_CALLEES = ("ident", "identl", "identc", "swap", "head", "scale", "apply")


# ---------------------------------------------------------------------------- tie
def tie(ctx):
    rd = Reader()
    cases = _corpus()
    if ctx.replay_in and "request" in ctx.replay_in.get("replay", {}):
        cases.append({"req": P(ctx.replay_in["replay"]["request"]), "kind": "replay", "nt": True})
    cases += _mk_cases(ctx)
    lines = [S(c["req"]) for c in cases]
    model = ctx.driver(DRIVER, lines)
    inst0_lines, inst0_idx = [], []
    n_orc = 0
    for c, line, m in zip(cases, lines, model):
        req = c["req"]
        real = real_of(req, rd)
        if req[0] == "rm":
            m = _canon_set(m)
        orc = oracle_of(req)
        if orc is not None:
            n_orc += 1
        ctx.count(line, nontrivial=c["nt"], kind=c["kind"] + ":" + ("error" if real == "error" else "ok" if not real.startswith("exception") else real))
        bad = None
        if orc is not None and real != orc:
            bad = f"real={real} expected={orc}"
        if bad is None and req[0] == "ipip" and orc is not None:
            # composition law: merged one-step instantiation, on trees and with the real ==
            exp = o_composition_expected(req)
            if exp is not None and exp != real:
                bad = f"two steps give {real}, the merged single step should give {exp}"
            else:
                try:
                    ok, lhs, rhs = real_eq_law(req, rd)
                    if not ok:
                        bad = f"composition law fails under ==: {lhs} vs {rhs}"
                except _errs():
                    bad = "merged single-step instantiation raised although both steps succeeded"
        if bad is not None:
            ctx.violation("input:" + line, f"C13 oracle disagrees with the real code on `{line[:300]}`: {bad[:600]}",
                          {"request": line, "real": real, "oracle": orc, "model": m, "kind": c["kind"]})
        if c.get("expect") is not None and real != c["expect"]:
            ctx.violation("input:" + line, f"corpus case `{line[:200]}` no longer gives the recorded result",
                          {"request": line, "real": real, "expected": c["expect"], "model": m})
        if real != m:
            ctx.broke(f"correspondence Model/Instantiate.lean vs real code on `{line[:400]}` (real={real[:300]} model={m[:300]})")
        if req[0] == "inst" and req[1] == "0" and all(x != "-" for x in req[2]):
            inst0_lines.append(S(["inst0", req[2], req[3]]))
            inst0_idx.append(real)
    ctx.extra["oracle_evaluations"] = n_orc
    _prog_tie(ctx)
    # informational: the shared Ty.inst (Model/Ty.lean, owned by another property) against the real Instantiator
    if inst0_lines:
        rep = ctx.driver(DRIVER, inst0_lines)
        diff = [(l, r, m) for l, r, m in zip(inst0_lines, inst0_idx, rep) if r != m]
        ctx.extra["shared_Ty_inst_vs_real"] = {"compared": len(rep), "disagree": len(diff),
                                               "first": [{"line": l[:300], "real": r[:200], "Ty.inst": m[:200]} for l, r, m in diff[:3]]}


if __name__ == "__main__":
    vlib.main(sys.modules[__name__])
