"""Shared machinery for every property check (see DESIGN.md §3.4).

A property module `props/cXX.py` defines

    PID = "C30"
    THEOREM_MODULES = ["GuppyVerif.Props.C30"]        # audited, all theorems counted
    DRIVER = "C30"                                    # lean/GuppyVerif/Drivers/C30.lean (optional)
    def translate(ctx): ...      # optional: regenerate lean/GuppyVerif/Gen/*.lean from /repo
    def tie(ctx): ...            # correspondence + property oracle on the REAL code
    def search(ctx, why): ...    # optional deeper failing-input search when something broke

and calls `vlib.main(sys.modules[__name__])`.

Exit codes: 0 held | 1 violation | 2 infrastructure problem / timeout.
"""
from __future__ import annotations

import argparse
import fcntl
import hashlib
import json
import os
import random
import re
import subprocess
import sys
import time
import traceback
from typing import Any, Callable, Iterable

VERIF = os.path.dirname(os.path.dirname(os.path.abspath(__file__)))
LEAN = os.path.join(VERIF, "lean")
OUT = os.path.join(VERIF, "out")
ALLOWED_AXIOMS = {"propext", "Classical.choice", "Quot.sound"}
BANNED = re.compile(
    r"\bsorry\b|\badmit\b|^\s*axiom\s|\bnative_decide\b|\bbv_decide\b|\bimplemented_by\b|\bunsafe\s|maxHeartbeats\s+0\b",
    re.M,
)

TRUSTED_BASE = [
    "Lean 4.33.0 kernel; axioms limited to propext, Classical.choice, Quot.sound (audited per theorem via Lean.collectAxioms)",
    "the Lean statement of the property (lean/GuppyVerif/Props, Spec)",
    "harness/bootstrap.py shim that imports /repo's working tree on the 1.0.4 dependency stack",
    "the correspondence harness / translators of this property (generators, canonicalisers, line protocol)",
]


class Infra(Exception):
    """infrastructure failure: exit 2, not a violation"""


def _strip_comments(src: str) -> str:
    # remove nested /- -/ block comments and -- line comments (good enough for grep)
    out, i, depth = [], 0, 0
    while i < len(src):
        if src.startswith("/-", i):
            depth += 1
            i += 2
        elif depth and src.startswith("-/", i):
            depth -= 1
            i += 2
        elif depth:
            if src[i] == "\n":
                out.append("\n")
            i += 1
        elif src.startswith("--", i):
            j = src.find("\n", i)
            i = len(src) if j < 0 else j
        else:
            out.append(src[i])
            i += 1
    return "".join(out)


def _run(cmd, *, cwd=None, input=None, timeout=None, env=None) -> subprocess.CompletedProcess:
    return subprocess.run(
        cmd, cwd=cwd, input=input, capture_output=True, text=True, timeout=timeout, env=env
    )


class _Lock:
    def __init__(self, path):
        self.path = path

    def __enter__(self):
        os.makedirs(os.path.dirname(self.path), exist_ok=True)
        self.f = open(self.path, "w")
        fcntl.flock(self.f, fcntl.LOCK_EX)
        return self

    def __exit__(self, *a):
        fcntl.flock(self.f, fcntl.LOCK_UN)
        self.f.close()


def lake_lock():
    return _Lock(os.path.join(LEAN, ".lake", "verif.lock"))


class Ctx:
    def __init__(self, pid: str, tier: str, seed: int):
        self.pid = pid
        self.tier = tier
        self.seed = seed
        self.rng = random.Random((seed << 8) ^ int(hashlib.sha1(pid.encode()).hexdigest()[:8], 16))
        self.t0 = time.time()
        self.violations: list[dict] = []
        self.known_hits: list[dict] = []
        self.evaluations = 0
        self.nontrivial: set[str] = set()
        self.samples: list[Any] = []
        self.rule = ""
        self.dist: dict[str, int] = {}
        self.extra: dict[str, Any] = {}
        self.assumptions: list[str] = []
        self.unmodelled: list[str] = []
        self.partial_theorems: list[str] = []
        self.obligations = 0
        self.discharged = 0
        self.theorems: dict[str, list[str]] = {}
        self.build_ok = True
        self.build_log = ""
        self.broken: list[str] = []  # names of theorems / ties that no longer check
        self.quick = tier == "quick"
        self.replay_in: dict | None = None

    # ---------------------------------------------------------------- counting
    def count(self, case: Any, nontrivial: bool, kind: str | None = None) -> None:
        self.evaluations += 1
        if kind:
            self.dist[kind] = self.dist.get(kind, 0) + 1
        if nontrivial:
            h = hashlib.sha1(json.dumps(case, sort_keys=True, default=str).encode()).hexdigest()
            self.nontrivial.add(h)
        if len(self.samples) < 5 and (nontrivial or self.evaluations <= 2):
            self.samples.append(case)

    def bump(self, kind: str, n: int = 1) -> None:
        self.dist[kind] = self.dist.get(kind, 0) + n

    def n(self, quick: int, thorough: int) -> int:
        return quick if self.quick else thorough

    # ---------------------------------------------------------------- lean
    def lake_build(self, targets: list[str], timeout: int = 3000) -> bool:
        with lake_lock():
            p = _run(["lake", "build", *targets], cwd=LEAN, timeout=timeout)
        self.build_log += p.stdout + p.stderr
        if p.returncode != 0:
            self.build_ok = False
        return p.returncode == 0

    def audit(self, modules: list[str]) -> None:
        """Enumerate every theorem of `modules`, collect its axioms, count obligations."""
        os.makedirs(OUT, exist_ok=True)
        path = os.path.join(OUT, f"audit_{self.pid}.lean")
        imports = "\n".join(f"import {m}" for m in modules)
        mods = ", ".join(f"`{m}" for m in modules)
        with open(path, "w") as f:
            f.write(
                f"import Lean\n{imports}\nopen Lean Elab Command\n"
                "run_cmd do\n"
                "  let env ← getEnv\n"
                f"  for m in [{mods}] do\n"
                "    let some idx := env.getModuleIdx? m | throwError \"no module {m}\"\n"
                "    for n in env.header.moduleData[idx.toNat]!.constNames do\n"
                "      if let some (.thmInfo _) := env.find? n then\n"
                "        if !n.isInternalDetail then\n"
                "          let ax ← liftCoreM (collectAxioms n)\n"
                "          let some ci := env.find? n | continue\n"
                "          logInfo m!\"AUDIT {n} :: {ax.toList} :: H{hash ci.type}\"\n"
            )
        p = _run(["lake", "env", "lean", path], cwd=LEAN, timeout=1200)
        txt = p.stdout + p.stderr
        if p.returncode != 0:
            self.build_ok = False
            self.build_log += txt
            return
        self.theorem_hashes = {}
        for m in re.finditer(r"AUDIT (\S+) :: \[(.*?)\](?: :: H(\d+))?", txt, re.S):
            name, ax = m.group(1), [a.strip() for a in m.group(2).replace("\n", " ").split(",") if a.strip()]
            self.theorems[name] = ax
            if m.group(3):
                self.theorem_hashes[name] = m.group(3)
        # theorem lock: a property theorem that was there when the lock was written must still be there
        lock_path = os.path.join(LEAN, "theorems.lock.json")
        if os.path.exists(lock_path):
            lock = json.load(open(lock_path)).get(self.pid, {})
            missing = sorted(n for n in lock if n not in self.theorems)
            changed = sorted(n for n in lock if n in self.theorem_hashes and lock[n] != self.theorem_hashes[n])
            self.extra["theorem_lock"] = {"locked": len(lock), "missing": missing, "statement_changed": changed}
            if missing:
                raise Infra(f"property theorems listed in lean/theorems.lock.json are gone: {missing} (re-run bin/lock only if that is deliberate)")
        self.obligations = len(self.theorems)
        bad = {n: ax for n, ax in self.theorems.items() if not set(ax) <= ALLOWED_AXIOMS}
        self.discharged = self.obligations - len(bad)
        if bad:
            raise Infra(f"disallowed axioms: {bad}")
        self.partial_theorems = sorted(n for n in self.theorems if n.endswith("_partial"))

    def grep_banned(self, roots: Iterable[str] = ()) -> None:
        """Banned tokens in every Lean source this property depends on (transitive imports of
        its theorem modules and of its driver); with no roots, the whole tree."""
        files: list[str] = []
        base = LEAN
        roots = list(roots)
        if roots:
            seen: set[str] = set()
            todo = list(roots)
            while todo:
                m = todo.pop()
                if m in seen or not m.startswith("GuppyVerif"):
                    continue
                seen.add(m)
                f = os.path.join(base, *m.split(".")) + ".lean"
                if not os.path.exists(f):
                    continue
                files.append(f)
                for im in re.findall(r"^import\s+(\S+)", open(f).read(), re.M):
                    todo.append(im)
        else:
            for root, _d, fs in os.walk(os.path.join(base, "GuppyVerif")):
                files += [os.path.join(root, fn) for fn in fs if fn.endswith(".lean")]
        hits = []
        for p in sorted(files):
            src = _strip_comments(open(p).read())
            for m in BANNED.finditer(src):
                hits.append(f"{p}: {m.group(0).strip()}")
        if hits:
            raise Infra("banned tokens in Lean sources: " + "; ".join(hits[:10]))
        self.extra["lean_files_scanned"] = len(files)

    def driver(self, name: str, lines: list[str], timeout: int = 3000) -> list[str]:
        """Pipe request lines to the Lean model driver, return reply lines (same length)."""
        exe = os.path.join(LEAN, ".lake", "build", "bin", f"drv_{name.lower()}")
        lakefile = open(os.path.join(LEAN, "lakefile.toml")).read()
        data = "".join(l + "\n" for l in lines)
        if f'name = "drv_{name.lower()}"' in lakefile:
            if not self.lake_build([f"drv_{name.lower()}"]):
                raise Infra("model driver does not build:\n" + self.build_log[-3000:])
            p = _run([exe], input=data, timeout=timeout)
        else:
            p = _run(
                ["lake", "env", "lean", "--run", f"GuppyVerif/Drivers/{name}.lean"],
                cwd=LEAN, input=data, timeout=timeout,
            )
        if p.returncode != 0:
            raise Infra(f"model driver failed: {p.stderr[-2000:]}")
        out = p.stdout.split("\n")
        if out and out[-1] == "":
            out.pop()
        if len(out) != len(lines):
            raise Infra(f"model driver returned {len(out)} lines for {len(lines)} requests: {p.stderr[-500:]}")
        return out

    # ---------------------------------------------------------------- results
    def violation(self, key: str, what: str, replay: dict, found_input: bool = True) -> None:
        """Record a violation.  `key` identifies the failing input (matched against
        known_findings.json); `replay` is written to the replay file."""
        for kf in load_findings():
            if kf.get("property") == self.pid and kf.get("status") == "known" and kf.get("key") == key:
                if not any(k["key"] == key for k in self.known_hits):
                    self.known_hits.append({"key": key, "what": kf.get("what", what)})
                return
        if any(v["key"] == key for v in self.violations):
            return
        self.violations.append({"key": key, "what": what, "replay": replay, "found": found_input})

    def broke(self, name: str) -> None:
        if name not in self.broken:
            self.broken.append(name)


_findings_cache = None


def load_findings() -> list[dict]:
    global _findings_cache
    if _findings_cache is None:
        p = os.path.join(VERIF, "known_findings.json")
        _findings_cache = json.load(open(p))["findings"] if os.path.exists(p) else []
    return _findings_cache


def _write_replay(ctx: Ctx, v: dict) -> str:
    d = os.path.join(OUT, "replays", ctx.pid)
    os.makedirs(d, exist_ok=True)
    h = hashlib.sha1(v["key"].encode()).hexdigest()[:12]
    path = os.path.join(d, f"{h}.json")
    with open(path, "w") as f:
        json.dump(
            {"property": ctx.pid, "key": v["key"], "what": v["what"], "found_failing_input": v["found"],
             "seed": ctx.seed, "tier": ctx.tier, "replay": v["replay"]},
            f, indent=1, default=str,
        )
    return path


def write_evidence(ctx: Ctx, mod) -> None:
    os.makedirs(os.path.join(VERIF, "evidence"), exist_ok=True)
    cov = {
        "obligations": ctx.obligations,
        "discharged": ctx.discharged,
        "checker_cmd": "cd lean && lake build " + " ".join(getattr(mod, "THEOREM_MODULES", []))
        + "  # then Lean.collectAxioms on every theorem of those modules (out/audit_%s.lean)" % ctx.pid,
        "trusted_base": TRUSTED_BASE + list(getattr(mod, "TRUSTED_EXTRA", [])),
        "theorems": ctx.theorems,
        "partial_theorems": ctx.partial_theorems,
        "evaluations": ctx.evaluations,
        "distinct_nontrivial": len(ctx.nontrivial),
        "rule": ctx.rule or getattr(mod, "RULE", ""),
        "samples": ctx.samples or ["(no generated cases in this run)"],
        "distribution": ctx.dist,
        "unmodelled": ctx.unmodelled or list(getattr(mod, "UNMODELLED", [])),
        "known_findings_hit": ctx.known_hits,
        "broken": ctx.broken,
    }
    cov.update(ctx.extra)
    ev = {
        "property_id": ctx.pid,
        "tier": ctx.tier,
        "seed": ctx.seed,
        "level": "proof",
        "coverage": cov,
        "assumptions": ctx.assumptions or list(getattr(mod, "ASSUMPTIONS", [])),
        "wall_s": round(time.time() - ctx.t0, 2),
        "violations": len(ctx.violations),
    }
    evdir = os.path.join(VERIF, "evidence")
    if os.environ.get("VERIF_REPO") and os.path.realpath(os.environ["VERIF_REPO"]) != os.path.realpath("/repo"):
        # run against a scratch copy (mutation testing): do not overwrite the committed evidence
        evdir = os.path.join(OUT, "evidence_scratch")
        os.makedirs(evdir, exist_ok=True)
    with open(os.path.join(evdir, f"{ctx.pid}.json"), "w") as f:
        json.dump(ev, f, indent=1, default=str)


def main(mod) -> None:
    ap = argparse.ArgumentParser()
    ap.add_argument("--tier", default=os.environ.get("VERIF_TIER", "quick"), choices=["quick", "thorough"])
    ap.add_argument("--replay", default=None)
    ap.add_argument("--seed", type=int, default=int(os.environ.get("VERIF_SEED", "0") or 0))
    a = ap.parse_args()
    pid = mod.PID
    ctx = Ctx(pid, a.tier, a.seed)
    os.environ.setdefault("CQCL_GUPPYLANG_VERIF", "1")
    try:
        if a.replay:
            ctx.replay_in = json.load(open(a.replay))
        # 1. bootstrap /repo
        sys.path.insert(0, os.path.join(VERIF, "harness"))
        try:
            import bootstrap

            bootstrap.install()
        except Exception as e:  # noqa: BLE001
            raise Infra(f"cannot import /repo sources: {e!r}") from e
        # 2. regenerate Gen/, build theorems
        if hasattr(mod, "translate"):
            mod.translate(ctx)
        mods = list(getattr(mod, "THEOREM_MODULES", []))
        extra = list(getattr(mod, "BUILD_EXTRA", []))
        ok = ctx.lake_build(mods + extra)
        # 3. hygiene
        drv = getattr(mod, "DRIVER", None)
        ctx.grep_banned(mods + extra + ([f"GuppyVerif.Drivers.{drv}"] if drv else []))
        if ok:
            ctx.audit(mods)
            if ctx.tier == "thorough" and getattr(mod, "LEANCHECKER", True):
                p = _run(["lake", "env", "leanchecker", *mods], cwd=LEAN, timeout=3000)
                ctx.extra["leanchecker"] = "ok" if p.returncode == 0 else (p.stdout + p.stderr)[-500:]
                if p.returncode != 0:
                    raise Infra("leanchecker rejected the compiled theorems: " + (p.stdout + p.stderr)[-1000:])
        else:
            ctx.broke("lake build " + " ".join(mods))
        # 4. tie (+ property oracle on the real code)
        if hasattr(mod, "tie"):
            mod.tie(ctx)
        # 5. something broke and no concrete failing input yet: deeper search
        if ctx.broken and not any(v["found"] for v in ctx.violations) and hasattr(mod, "search"):
            mod.search(ctx, list(ctx.broken))
        if ctx.broken and not any(v["found"] for v in ctx.violations):
            tail = ctx.build_log[-4000:] if not ctx.build_ok else ""
            ctx.violation(
                "broken:" + "|".join(ctx.broken),
                "proof obligation or correspondence no longer checks: " + "; ".join(ctx.broken),
                {"broken": ctx.broken, "build_log_tail": tail},
                found_input=False,
            )
        write_evidence(ctx, mod)
        for k in ctx.known_hits:
            print(f"KNOWN-FINDING: property={pid} {k['what']}")
        if ctx.violations:
            for v in ctx.violations[:5]:
                path = _write_replay(ctx, v)
                tail = "" if v["found"] else " no-failing-input-found"
                print(f"VIOLATION property={pid} replay={path}{tail}")
            sys.exit(1)
        print(
            f"OK property={pid} tier={ctx.tier} seed={ctx.seed} theorems={ctx.discharged}/{ctx.obligations} "
            f"cases={ctx.evaluations} nontrivial={len(ctx.nontrivial)} wall={time.time()-ctx.t0:.1f}s"
        )
        sys.exit(0)
    except Infra as e:
        print(f"INFRA property={pid}: {e}", file=sys.stderr)
        sys.exit(2)
    except subprocess.TimeoutExpired as e:
        print(f"INFRA property={pid}: timeout {e}", file=sys.stderr)
        sys.exit(2)
    except SystemExit:
        raise
    except BaseException:  # noqa: BLE001
        traceback.print_exc()
        print(f"INFRA property={pid}: harness crashed", file=sys.stderr)
        sys.exit(2)
